package main

// Parser rules: nil-means-error-recorded (R-NILERR), block opening
// (R-BLOCKOPEN), precedence table and Pratt loop (R-PRECTABLE, R-PRATT,
// R-INFIXSET), ternary and local guards.

import (
	"fmt"
	"go/ast"
	"go/constant"
	"go/token"
	"go/types"
	"sort"
	"strings"

	"golang.org/x/tools/go/ssa"
)

func init() {
	register(&Rule{ID: "R-NILERR", Floor: 60, Run: ruleNilErr,
		Text: "In the parser, a parse function returns nil only after an error was appended to the parser's error list (directly, through a helper that always records, or because a callee that returned nil/false had recorded one); Parse turns a non-empty list into an error."})
	register(&Rule{ID: "R-BLOCKOPEN", Floor: 6, Run: ruleBlockOpen,
		Text: "A block is parsed only directly after its opening brace was demanded: every call of the block parser is dominated by a successful expectation of the '{' token with no token advance in between."})
	register(&Rule{ID: "R-PRECTABLE", Floor: 20, Run: rulePrecTable,
		Text: "The binding powers in the parser's precedence table are ordered as the language documents: index/call >= prefix > % > ** > * / > + - > comparisons, ~= !~ in > == != > && || > .. = > ? > lowest."})
	register(&Rule{ID: "R-INFIXSET", Floor: 27, Run: ruleInfixSet,
		Text: "The tokens with a registered infix parselet are exactly the tokens with an entry in the precedence table."})
	register(&Rule{ID: "R-PRATT", Floor: 8, Run: rulePratt,
		Text: "The Pratt loop continues on a strict < between the caller's binding power and the next operator's (equal levels group left to right); infix parselets read the operator's binding power before advancing past it and hand it to the recursive parse unchanged on every path (no adjustment for particular operators); prefix operands are parsed at the prefix level, bracketed sub-expressions at the lowest level."})
	register(&Rule{ID: "R-TERNGUARD", Floor: 3, Run: ruleTernGuard,
		Text: "The ternary parselet rejects nesting: the in-ternary flag is tested first (true → error), set before the arms are parsed, and cleared by a deferred call; the condition, which was parsed before the flag was set, is searched for a ternary by a function that has a case for every kind of node that can occur below an expression and can hold one, and reads every such child."})
	register(&Rule{ID: "R-LOCALGUARD", Floor: 1, Run: ruleLocalGuard,
		Text: "A local-variable node is only built when the parser is inside a function (dominated by the true edge of the in-function flag)."})
	register(&Rule{ID: "R-TOPSTOP", Floor: 1, Run: ruleTopStop,
		Text: "The top-level statement loop may stop early only at end of input: for every other token kind that ends the loop, an error is recorded before the program is returned."})
}

// ---------------------------------------------------------------------------
// parser roles

type parserRoles struct {
	advance    *ssa.Function          // nextToken: stores curToken
	expect     *ssa.Function          // expectPeek
	curPrec    *ssa.Function          // curPrecedence
	peekPrec   *ssa.Function          // peekPrecedence
	parseFns   map[*ssa.Function]bool // methods returning an AST value
	all        []*ssa.Function
	errorField string
	// expectLike: the expectation helper and the methods that wrap it — they
	// take the kind to expect, hand it on, and report true only when the
	// expectation held (`demandPeek(kind)`: expectPeek plus an error text)
	expectLike map[*ssa.Function]bool
}

// isExpect: cal is the expectation helper or a wrapper of it.
func (pr *parserRoles) isExpect(cal *ssa.Function) bool {
	return cal != nil && (cal == pr.expect || pr.expectLike[cal])
}

// findExpectWrappers fills expectLike (to a fixed point: wrappers of wrappers).
func (pr *parserRoles) findExpectWrappers() {
	pr.expectLike = map[*ssa.Function]bool{}
	for changed := true; changed; {
		changed = false
		for _, fn := range pr.all {
			if fn.Parent() != nil || fn == pr.expect || pr.expectLike[fn] || len(fn.Blocks) == 0 {
				continue
			}
			ps, rs := sigParams(fn), sigResults(fn)
			if len(ps) != 1 || !isNamed(ps[0], "token", "Type") || len(rs) != 1 || !isBoolType(rs[0]) {
				continue
			}
			kind := fn.Params[len(fn.Params)-1]
			var inner *ssa.Call
			n, other := 0, false
			for _, b := range fn.Blocks {
				for _, ins := range b.Instrs {
					c, ok := ins.(*ssa.Call)
					if !ok {
						continue
					}
					cal := c.Call.StaticCallee()
					switch {
					case pr.isExpect(cal) && len(c.Call.Args) == 2 && c.Call.Args[1] == ssa.Value(kind):
						inner = c
						n++
					case cal == pr.advance || pr.isExpect(cal) || cal != nil && pr.parseFns[cal]:
						other = true
					}
				}
			}
			if n != 1 || other {
				continue
			}
			// true is returned only where the inner expectation held
			good := true
			for _, b := range fn.Blocks {
				ret, ok := terminator(b).(*ssa.Return)
				if !ok {
					continue
				}
				v := returnOperand(ret, 0)
				if v == ssa.Value(inner) {
					continue
				}
				if k, ok := v.(*ssa.Const); ok && k.Value != nil && k.Value.Kind() == constant.Bool {
					if !constant.BoolVal(k.Value) {
						continue
					}
					if expectSuccessDominates(inner, ret) {
						continue
					}
				}
				good = false
			}
			if good {
				pr.expectLike[fn] = true
				changed = true
			}
		}
	}
}

func parserFns(p *Program) []*ssa.Function {
	var out []*ssa.Function
	for _, fn := range p.LibFns {
		if fnPkg(fn).Pkg.Path() == Mod+"/parser" {
			out = append(out, fn)
		}
	}
	return out
}

func isASTType(t types.Type) bool {
	switch u := t.(type) {
	case *types.Slice:
		return isASTType(u.Elem())
	case *types.Pointer:
		return isASTType(u.Elem())
	}
	n, ok := types.Unalias(t).(*types.Named)
	return ok && n.Obj().Pkg() != nil && n.Obj().Pkg().Path() == Mod+"/ast"
}

func nilable(t types.Type) bool {
	switch t.Underlying().(type) {
	case *types.Pointer, *types.Interface, *types.Slice, *types.Map:
		return true
	}
	return false
}

func resolveParserRoles(p *Program, r *Reporter) *parserRoles {
	pr := &parserRoles{parseFns: map[*ssa.Function]bool{}, errorField: "parser.Parser.errors"}
	pr.all = parserFns(p)
	precUsers := map[*ssa.Function]string{}
	for _, fn := range pr.all {
		if fn.Parent() != nil || !recvNamed(fn, "parser", "Parser") {
			continue
		}
		rs := sigResults(fn)
		if len(rs) >= 1 && nilable(rs[0]) && isASTType(rs[0]) {
			pr.parseFns[fn] = true
		}
		for _, b := range fn.Blocks {
			for _, ins := range b.Instrs {
				if st, ok := ins.(*ssa.Store); ok && fieldKey(st.Addr) == "parser.Parser.curToken" {
					pr.advance = fn
				}
			}
		}
		// precedence lookups: () int reading the precedence table with cur/peek token
		if len(sigParams(fn)) == 0 && len(rs) == 1 && isInt(rs[0]) {
			for _, b := range fn.Blocks {
				for _, ins := range b.Instrs {
					if fa, ok := ins.(*ssa.FieldAddr); ok {
						k := fieldKey(fa)
						if k == "parser.Parser.curToken" || k == "parser.Parser.peekToken" {
							precUsers[fn] = k
						}
					}
				}
			}
		}
	}
	for fn, k := range precUsers {
		if k == "parser.Parser.curToken" {
			pr.curPrec = fn
		} else {
			pr.peekPrec = fn
		}
	}
	// expectPeek: (token.Type) bool that calls the advance function
	for _, fn := range pr.all {
		if fn.Parent() != nil || pr.advance == nil {
			continue
		}
		ps, rs := sigParams(fn), sigResults(fn)
		if len(ps) == 1 && isNamed(ps[0], "token", "Type") && len(rs) == 1 {
			if b, ok := rs[0].Underlying().(*types.Basic); ok && b.Kind() == types.Bool {
				for _, bl := range fn.Blocks {
					for _, ins := range bl.Instrs {
						if _, ok := staticCalleeIs(ins, pr.advance); ok {
							pr.expect = fn
						}
					}
				}
			}
		}
	}
	miss := func(f *ssa.Function, what string) bool {
		if f == nil {
			r.Undecided("anchor "+what, "-", "cannot find "+what)
			return true
		}
		return false
	}
	bad := miss(pr.advance, "token advance (method storing Parser.curToken)")
	bad = miss(pr.expect, "expectation helper ((token.Type) bool that advances)") || bad
	bad = miss(pr.curPrec, "current-token precedence lookup") || bad
	bad = miss(pr.peekPrec, "next-token precedence lookup") || bad
	if bad {
		return nil
	}
	pr.findExpectWrappers()
	return pr
}

// ---------------------------------------------------------------------------
// R-NILERR

type nilerr struct {
	p   *Program
	pr  *parserRoles
	AR  map[*ssa.Function]bool // always records an error
	FE  map[*ssa.Function]bool // returns false ⇒ recorded
	dyn map[string]bool        // named func types of registered parselets
}

func (a *nilerr) isRecord(ins ssa.Instruction) bool {
	st, ok := ins.(*ssa.Store)
	if !ok || fieldKey(st.Addr) != a.pr.errorField {
		return false
	}
	_, isApp := isBuiltinCall(st.Val, "append")
	return isApp
}

// nmr: "nil means recorded" — v is the result of something that satisfies
// NILERR (so if v is nil an error has been recorded).
func (a *nilerr) nmr(v ssa.Value, fn *ssa.Function, depth int) bool {
	if depth > 8 {
		return false
	}
	switch v := v.(type) {
	case *ssa.Call:
		if c := v.Call.StaticCallee(); c != nil {
			return a.pr.parseFns[c]
		}
		if !v.Call.IsInvoke() {
			// dynamic parselet call through one of the registered tables
			if n, ok := types.Unalias(v.Call.Value.Type()).(*types.Named); ok && a.dyn[n.Obj().Name()] {
				return true
			}
		}
	case *ssa.UnOp:
		if v.Op == token.MUL {
			if fa, ok := v.X.(*ssa.FieldAddr); ok {
				found := false
				for _, b := range fn.Blocks {
					for _, ins := range b.Instrs {
						if st, ok := ins.(*ssa.Store); ok {
							if fa2, ok := st.Addr.(*ssa.FieldAddr); ok && fa2.X == fa.X && fa2.Field == fa.Field {
								found = true
								if !a.nmr(st.Val, fn, depth+1) {
									return false
								}
							}
						}
					}
				}
				return found
			}
		}
	case *ssa.Extract:
		// the node of `node, more := p.parseOperand()`: the first result of a
		// parse function with further results
		if v.Index == 0 {
			return a.nmr(v.Tuple, fn, depth+1)
		}
	case *ssa.MakeInterface:
		return a.nmr(v.X, fn, depth+1)
	case *ssa.ChangeInterface:
		return a.nmr(v.X, fn, depth+1)
	case *ssa.Phi:
		for _, e := range v.Edges {
			if !a.nmr(e, fn, depth+1) {
				return false
			}
		}
		return true
	case *ssa.Parameter:
		// a node handed in by the callers: at every call the argument is
		// known not to be nil there, or is itself nil only with an error
		idx := -1
		for i, q := range fn.Params {
			if q == v {
				idx = i
			}
		}
		sites := 0
		for _, g := range a.pr.all {
			for _, b := range g.Blocks {
				for _, ins := range b.Instrs {
					c, ok := staticCalleeIs(ins, fn)
					if !ok || idx < 0 || idx >= len(c.Call.Args) {
						continue
					}
					sites++
					arg := c.Call.Args[idx]
					if !nonNilAt(arg, c) && !a.nmr(arg, g, depth+1) {
						return false
					}
				}
			}
		}
		return sites > 0
	}
	return false
}

// nonNilAt: the instruction lies on the non-nil side of a test of v against nil.
func nonNilAt(v ssa.Value, at ssa.Instruction) bool {
	if v.Referrers() == nil {
		return false
	}
	for _, ref := range *v.Referrers() {
		bo, ok := ref.(*ssa.BinOp)
		if !ok || (bo.Op != token.EQL && bo.Op != token.NEQ) || !(isNilConst(bo.X) || isNilConst(bo.Y)) {
			continue
		}
		for _, r2 := range *bo.Referrers() {
			iff, ok := r2.(*ssa.If)
			if !ok {
				continue
			}
			side := iff.Block().Succs[1]
			if bo.Op == token.NEQ {
				side = iff.Block().Succs[0]
			}
			if len(side.Preds) == 1 && (side == at.Block() || side.Dominates(at.Block())) {
				return true
			}
		}
	}
	return false
}

func (a *nilerr) implies(cond ssa.Value, branch bool, fn *ssa.Function) bool {
	switch c := cond.(type) {
	case *ssa.UnOp:
		if c.Op == token.NOT {
			return a.implies(c.X, !branch, fn)
		}
	case *ssa.BinOp:
		if (c.Op == token.EQL && branch) || (c.Op == token.NEQ && !branch) {
			if isNilConst(c.Y) && a.nmr(c.X, fn, 0) {
				return true
			}
			if isNilConst(c.X) && a.nmr(c.Y, fn, 0) {
				return true
			}
		}
	case *ssa.Call:
		if callee := c.Call.StaticCallee(); callee != nil && a.FE[callee] && !branch && c.Call.Signature().Results().Len() == 1 {
			return true
		}
	case *ssa.Extract:
		if cl, ok := c.Tuple.(*ssa.Call); ok && !branch {
			if callee := cl.Call.StaticCallee(); callee != nil && a.FE[callee] && c.Index == cl.Call.Signature().Results().Len()-1 {
				return true
			}
		}
	}
	return false
}

func onlyPhiAndIf(b *ssa.BasicBlock) bool {
	for _, ins := range b.Instrs {
		switch ins.(type) {
		case *ssa.Phi, *ssa.If, *ssa.DebugRef:
		default:
			return false
		}
	}
	return true
}

// analyse: forward must-dataflow of the bit "an error has been recorded".
func (a *nilerr) analyse(fn *ssa.Function) (out map[*ssa.BasicBlock]bool, edge func(p, s *ssa.BasicBlock) bool) {
	in := map[*ssa.BasicBlock]bool{}
	out = map[*ssa.BasicBlock]bool{}
	for _, b := range fn.Blocks {
		in[b] = true
		out[b] = true
	}
	transfer := func(b *ssa.BasicBlock, s bool) bool {
		for _, ins := range b.Instrs {
			if a.isRecord(ins) {
				s = true
			}
			if c, ok := ins.(*ssa.Call); ok {
				if callee := c.Call.StaticCallee(); callee != nil && a.AR[callee] {
					s = true
				}
			}
		}
		return s
	}
	edge = func(p, s *ssa.BasicBlock) bool {
		if out[p] {
			return true
		}
		iff, ok := terminator(p).(*ssa.If)
		if !ok || p.Succs[0] == p.Succs[1] {
			return false
		}
		branch := p.Succs[0] == s
		if phi, ok := iff.Cond.(*ssa.Phi); ok && phi.Block() == p && onlyPhiAndIf(p) {
			// short-circuit condition: judge each feasible incoming edge
			all := true
			for i, pp := range p.Preds {
				v := phi.Edges[i]
				if c, ok := v.(*ssa.Const); ok && c.Value != nil && c.Value.Kind() == constant.Bool {
					if constant.BoolVal(c.Value) != branch {
						continue // infeasible for this successor
					}
				}
				if !(out[pp] || a.implies(v, branch, fn)) {
					all = false
				}
			}
			return all
		}
		return a.implies(iff.Cond, branch, fn)
	}
	for changed := true; changed; {
		changed = false
		for _, b := range fn.Blocks {
			ni := true
			if b == fn.Blocks[0] {
				ni = false
			} else if len(b.Preds) == 0 {
				ni = true // unreachable (recover block)
			} else {
				for _, pd := range b.Preds {
					if !edge(pd, b) {
						ni = false
					}
				}
			}
			no := transfer(b, ni)
			if ni != in[b] || no != out[b] {
				in[b], out[b] = ni, no
				changed = true
			}
		}
	}
	return out, edge
}

// recordedBefore: is the bit set just before instruction `at` in block b,
// given the block's IN state?
func (a *nilerr) recordedAt(fn *ssa.Function, at ssa.Instruction, out map[*ssa.BasicBlock]bool, edge func(p, s *ssa.BasicBlock) bool) bool {
	b := at.Block()
	s := true
	if b == fn.Blocks[0] {
		s = false
	} else {
		for _, pd := range b.Preds {
			if !edge(pd, b) {
				s = false
			}
		}
	}
	for _, ins := range b.Instrs {
		if ins == at {
			break
		}
		if a.isRecord(ins) {
			s = true
		}
		if c, ok := ins.(*ssa.Call); ok {
			if callee := c.Call.StaticCallee(); callee != nil && a.AR[callee] {
				s = true
			}
		}
	}
	return s
}

func ruleNilErr(p *Program, r *Reporter) {
	pr := resolveParserRoles(p, r)
	if pr == nil {
		return
	}
	a := &nilerr{p: p, pr: pr, AR: map[*ssa.Function]bool{}, FE: map[*ssa.Function]bool{}, dyn: map[string]bool{}}

	// registered parselets: the tables' function types, and each registered
	// method must be a parse function (checked below through parseFns).
	parserPk := p.ByPath[Mod+"/parser"]
	regs := registrations(p)
	for _, rg := range regs {
		a.dyn[rg.fnType] = true
		if rg.method == nil {
			r.Undecided("registration of "+rg.tok+" in "+rg.table, p.Pos(rg.pos), "the registered parselet is not a method value of the parser: its nil/error discipline cannot be analysed")
		} else if !pr.parseFns[rg.method] {
			r.Undecided("registration of "+rg.tok+" in "+rg.table, p.Pos(rg.pos), "registered parselet "+rg.method.Name()+" does not return an AST value")
		}
	}
	_ = parserPk

	// least fixpoints of "always records" and "false ⇒ recorded"
	for changed := true; changed; {
		changed = false
		for _, fn := range pr.all {
			if fn.Parent() != nil {
				continue
			}
			out, _ := a.analyse(fn)
			ar := true
			rs := sigResults(fn)
			// (a boolean handed back last, next to other results, says the same)
			fe := len(rs) >= 1 && isBoolType(rs[len(rs)-1])
			nret := 0
			for _, b := range fn.Blocks {
				ret, ok := terminator(b).(*ssa.Return)
				if !ok || (len(b.Preds) == 0 && b != fn.Blocks[0]) {
					continue
				}
				nret++
				if !out[b] {
					ar = false
				}
				if fe {
					c, isc := returnOperand(ret, len(ret.Results)-1).(*ssa.Const)
					if !isc {
						fe = false
					} else if !constant.BoolVal(c.Value) && !out[b] {
						fe = false
					}
				}
			}
			if nret == 0 {
				ar, fe = false, false
			}
			if ar && !a.AR[fn] {
				a.AR[fn] = true
				changed = true
			}
			if fe && !a.FE[fn] {
				a.FE[fn] = true
				changed = true
			}
		}
	}
	var arNames, feNames []string
	for f := range a.AR {
		arNames = append(arNames, f.Name())
	}
	for f := range a.FE {
		feNames = append(feNames, f.Name())
	}
	sort.Strings(arNames)
	sort.Strings(feNames)
	r.Info("summaries", "-", fmt.Sprintf("always-records=%v false-means-recorded=%v parse-functions=%d registrations=%d", arNames, feNames, len(pr.parseFns), len(regs)))

	var fns []*ssa.Function
	for fn := range pr.parseFns {
		fns = append(fns, fn)
	}
	sort.Slice(fns, func(i, j int) bool { return fns[i].Name() < fns[j].Name() })
	for _, fn := range fns {
		out, edge := a.analyse(fn)
		for _, b := range fn.Blocks {
			ret, ok := terminator(b).(*ssa.Return)
			if !ok || (len(b.Preds) == 0 && b != fn.Blocks[0]) {
				continue
			}
			v := returnOperand(ret, 0)
			// a list together with a status: the status says whether the parse
			// failed, the list may well be empty (nil) when it did not
			if rs := sigResults(fn); len(rs) == 2 && isBoolType(rs[1]) {
				if _, isSlice := rs[0].Underlying().(*types.Slice); isSlice {
					where := ret.Pos()
					if !where.IsValid() {
						where = fn.Pos()
					}
					nth := 0
					for _, b2 := range fn.Blocks {
						if b2 == b {
							break
						}
						if _, isRet := terminator(b2).(*ssa.Return); isRet {
							nth++
						}
					}
					k := fmt.Sprintf("%s/return %d of a list with its status", p.FnName(fn), nth+1)
					st, isK := returnOperand(ret, 1).(*ssa.Const)
					switch {
					case isK && st.Value != nil && st.Value.Kind() == constant.Bool && constant.BoolVal(st.Value):
						r.OkNT(k, p.Pos(where), "reports success: the list is what was parsed, possibly nothing")
					case a.recordedAt(fn, ret, out, edge):
						r.OkNT(k, p.Pos(where), "an error is recorded on every path to this return")
					case isK:
						r.Fail(k, p.Pos(where), "this parse function reports failure on a path where no error has been appended to the parser's error list: the caller gives up silently and Prepare can succeed")
					default:
						r.Undecided(k, p.Pos(where), "cannot decide what the status is on a path where no error has been recorded")
					}
					continue
				}
			}
			a.checkReturn(r, fn, ret, v, out, edge)
		}
	}

	// Parse: a nil error only when the error list is empty
	an, _ := p.Anchors()
	if an.parse != nil {
		ruleParseReportsErrors(p, r, an.parse, pr)
	}
}

func isBoolType(t types.Type) bool {
	b, ok := t.Underlying().(*types.Basic)
	return ok && b.Kind() == types.Bool
}

func (a *nilerr) checkReturn(r *Reporter, fn *ssa.Function, ret *ssa.Return, v ssa.Value, out map[*ssa.BasicBlock]bool, edge func(p, s *ssa.BasicBlock) bool) {
	p := a.p
	b := ret.Block()
	where := ret.Pos()
	if !where.IsValid() {
		where = fn.Pos()
	}
	key := p.FnName(fn) + "/return"
	describe := func() string {
		// name the return by the nearest preceding call, for a stable key
		last := ""
		for _, ins := range b.Instrs {
			if c, ok := ins.(*ssa.Call); ok {
				if cal := c.Call.StaticCallee(); cal != nil && fnPkg(cal) != nil && fnPkg(cal).Pkg.Path() == Mod+"/parser" {
					last = cal.Name()
				}
			}
		}
		if last != "" {
			return " after " + last
		}
		return ""
	}
	recorded := a.recordedAt(fn, ret, out, edge)
	switch x := v.(type) {
	case *ssa.Const:
		if x.IsNil() {
			k := key + " nil" + describe()
			if recorded {
				r.OkNT(k, p.Pos(where), "an error is recorded on every path to this nil return")
			} else {
				r.Fail(k, p.Pos(where), "this parse function returns nil on a path where no error has been appended to the parser's error list: the caller drops the fragment silently and Prepare can succeed")
			}
			return
		}
	case *ssa.Phi:
		if x.Block() == b {
			for i, e := range x.Edges {
				k := fmt.Sprintf("%s φ-edge %d%s", key, i, describe())
				if isNilConst(e) {
					if edge(b.Preds[i], b) || recorded {
						r.OkNT(k, p.Pos(where), "nil edge: error recorded")
					} else {
						r.Fail(k, p.Pos(where), "returns nil (through a merge) on a path where no error has been recorded")
					}
				} else if !a.okNonNil(e, fn) && !recorded {
					r.Undecided(k, p.Pos(where), "cannot decide whether the returned value may be nil without a recorded error: "+e.String())
				} else {
					r.Ok(k, p.Pos(where), "")
				}
			}
			return
		}
	}
	k := key + " value" + describe()
	if a.okNonNil(v, fn) || recorded {
		r.Ok(k, p.Pos(where), "")
	} else {
		r.Undecided(k, p.Pos(where), fmt.Sprintf("cannot decide whether the returned value may be nil without a recorded error: %s (%T)", v, v))
	}
}

// okNonNil: provably non-nil, or a value for which nil means recorded.
func (a *nilerr) okNonNil(v ssa.Value, fn *ssa.Function) bool {
	switch v := v.(type) {
	case *ssa.Alloc, *ssa.MakeSlice, *ssa.MakeMap, *ssa.Slice:
		return true
	case *ssa.MakeInterface:
		return a.okNonNil(v.X, fn)
	case *ssa.ChangeInterface:
		return a.okNonNil(v.X, fn)
	case *ssa.Call:
		if a.nmr(v, fn, 0) {
			return true
		}
		if _, ok := isBuiltinCall(v, "append"); ok {
			return true
		}
	case *ssa.Phi:
		for _, e := range v.Edges {
			if isNilConst(e) || !a.okNonNil(e, fn) {
				return false
			}
		}
		return true
	}
	return a.nmr(v, fn, 0)
}

type registration struct {
	table  string // registerPrefix / registerInfix / registerPostfix
	fnType string // named func type of the table
	tok    string
	method *ssa.Function
	pos    token.Pos
}

// registrations reads the parselet tables: calls of Parser methods with
// signature (token.Type, <named func type>).
func registrations(p *Program) []registration {
	var out []registration
	boundMethod := func(v ssa.Value) *ssa.Function {
		for {
			if ct, ok := v.(*ssa.ChangeType); ok {
				v = ct.X
				continue
			}
			break
		}
		if mc, ok := v.(*ssa.MakeClosure); ok {
			if bf, ok := mc.Fn.(*ssa.Function); ok {
				name := strings.TrimSuffix(bf.Name(), "$bound")
				for _, f := range parserFns(p) {
					if f.Parent() == nil && f.Name() == name && recvNamed(f, "parser", "Parser") {
						return f
					}
				}
			}
		}
		return nil
	}
	// the method a table entry stands for: a bound method value, or a method
	// expression (whose wrapper calls the method)
	entryMethod := func(v ssa.Value) *ssa.Function {
		if m := boundMethod(v); m != nil {
			return m
		}
		for {
			if ct, ok := v.(*ssa.ChangeType); ok {
				v = ct.X
				continue
			}
			break
		}
		f, ok := v.(*ssa.Function)
		if !ok {
			return nil
		}
		if fnPkg(f) == nil && f.Synthetic != "" {
			for _, fb := range f.Blocks {
				for _, fi := range fb.Instrs {
					if c2 := callOf(fi); c2 != nil && c2.StaticCallee() != nil {
						f = c2.StaticCallee()
					}
				}
			}
		}
		if recvNamed(f, "parser", "Parser") {
			return f
		}
		return nil
	}
	scan := append([]*ssa.Function{}, parserFns(p)...)
	if sp := p.SSAPkg[Mod+"/parser"]; sp != nil && sp.Func("init") != nil {
		scan = append(scan, sp.Func("init"))
	}
	for _, fn := range scan {
		for _, b := range fn.Blocks {
			for _, ins := range b.Instrs {
				// a table written as a map literal: one insertion per entry
				if mu, ok := ins.(*ssa.MapUpdate); ok {
					mt, ok := mu.Map.Type().Underlying().(*types.Map)
					if !ok || !isNamed(mt.Key(), "token", "Type") {
						continue
					}
					nt, ok := types.Unalias(mt.Elem()).(*types.Named)
					if !ok {
						continue
					}
					val := mu.Value
					sig, isSig := nt.Underlying().(*types.Signature)
					if !isSig {
						// a rule per token: a struct with the parse function in it
						stt, isSt := nt.Underlying().(*types.Struct)
						if !isSt {
							continue
						}
						ld, isLd := val.(*ssa.UnOp)
						if !isLd {
							continue
						}
						al, isAl := ld.X.(*ssa.Alloc)
						if !isAl {
							continue
						}
						found := false
						for _, ref := range *al.Referrers() {
							fa, ok := ref.(*ssa.FieldAddr)
							if !ok {
								continue
							}
							fnt, ok := types.Unalias(stt.Field(fa.Field).Type()).(*types.Named)
							if !ok {
								continue
							}
							fsig, ok := fnt.Underlying().(*types.Signature)
							if !ok {
								continue
							}
							for _, r2 := range *fa.Referrers() {
								if st, ok := r2.(*ssa.Store); ok && st.Addr == ssa.Value(fa) {
									val, nt, sig, found = st.Val, fnt, fsig, true
								}
							}
						}
						if !found {
							continue
						}
					}
					rg := registration{fnType: nt.Obj().Name(), pos: mu.Pos()}
					k, isConst := mu.Key.(*ssa.Const)
					if !isConst || k.Value == nil {
						continue // the registering helper itself: table[parameter] = function
					}
					rg.tok = constant.StringVal(k.Value)
					rg.method = entryMethod(val)
					// (a function type that names the parser as its first
					// parameter — a method expression — has one more)
					np := sig.Params().Len()
					if np > 0 && isNamed(deref(sig.Params().At(0).Type()), "parser", "Parser") {
						np--
					}
					if np == 1 {
						rg.table = "registerInfix"
					} else {
						rg.table = "nullary:" + nt.Obj().Name()
					}
					out = append(out, rg)
					continue
				}
				c, ok := ins.(*ssa.Call)
				if !ok {
					continue
				}
				cal := c.Call.StaticCallee()
				if cal == nil || !recvNamed(cal, "parser", "Parser") {
					continue
				}
				ps := sigParams(cal)
				if len(ps) != 2 || !isNamed(ps[0], "token", "Type") {
					continue
				}
				nt, ok := types.Unalias(ps[1]).(*types.Named)
				if !ok {
					continue
				}
				if _, isSig := nt.Underlying().(*types.Signature); !isSig {
					continue
				}
				// registrations made in a loop over a local table of {token, function}
				// entries: one registration per entry of the literal
				if al, kf, ff, n, ok := localEntryTable(c.Call.Args[1], c.Call.Args[2]); ok {
					tbl := "nullary:" + cal.Name()
					if sig, ok := nt.Underlying().(*types.Signature); ok && sig.Params().Len() == 1 {
						tbl = "registerInfix"
					}
					for i := 0; i < n; i++ {
						kv, fv := literalEntryField(al, i, kf), literalEntryField(al, i, ff)
						rg := registration{table: tbl, fnType: nt.Obj().Name(), pos: c.Pos()}
						if k, ok := kv.(*ssa.Const); ok && k.Value != nil && k.Value.Kind() == constant.String {
							rg.tok = constant.StringVal(k.Value)
						}
						if fv != nil {
							rg.method = entryMethod(fv)
							if rg.pos = fv.Pos(); !rg.pos.IsValid() {
								rg.pos = c.Pos()
							}
						}
						out = append(out, rg)
					}
					continue
				}
				rg := registration{table: cal.Name(), fnType: nt.Obj().Name(), pos: c.Pos()}
				if k, ok := c.Call.Args[1].(*ssa.Const); ok && k.Value != nil {
					rg.tok = constant.StringVal(k.Value)
				}
				// method value: ChangeType(MakeClosure(bound method)) …
				v := c.Call.Args[2]
				for {
					if ct, ok := v.(*ssa.ChangeType); ok {
						v = ct.X
						continue
					}
					break
				}
				if mc, ok := v.(*ssa.MakeClosure); ok {
					if bf, ok := mc.Fn.(*ssa.Function); ok {
						// bound method wrapper: find the wrapped method by name
						name := strings.TrimSuffix(bf.Name(), "$bound")
						for _, f := range parserFns(p) {
							if f.Parent() == nil && f.Name() == name && recvNamed(f, "parser", "Parser") {
								rg.method = f
							}
						}
					}
				}
				// role of the table, from the registered function type: one operand
				// parameter → infix; none → prefix or postfix (told apart below)
				if sig, ok := nt.Underlying().(*types.Signature); ok && sig.Params().Len() == 1 {
					rg.table = "registerInfix"
				} else {
					rg.table = "nullary:" + cal.Name()
				}
				out = append(out, rg)
			}
		}
	}
	// of the tables of parameterless parselets the one with more entries is the
	// prefix table (every token that can start an expression), the other the
	// postfix table (++ and --)
	count := map[string]int{}
	for _, rg := range out {
		if strings.HasPrefix(rg.table, "nullary:") {
			count[rg.table]++
		}
	}
	best := ""
	for t, n := range count {
		if best == "" || n > count[best] || (n == count[best] && t < best) {
			best = t
		}
	}
	for i := range out {
		if strings.HasPrefix(out[i].table, "nullary:") {
			if out[i].table == best {
				out[i].table = "registerPrefix"
			} else {
				out[i].table = "registerPostfix"
			}
		}
	}
	return out
}

func ruleParseReportsErrors(p *Program, r *Reporter, parse *ssa.Function, pr *parserRoles) {
	// every Return with a nil error is dominated by the true edge of
	// len(p.errors) == 0
	okAll := true
	n := 0
	for _, b := range parse.Blocks {
		ret, ok := terminator(b).(*ssa.Return)
		if !ok || !isSuccessReturn(ret) {
			continue
		}
		n++
		guarded := false
		for d := b; d != nil; d = d.Idom() {
			id := d.Idom()
			if id == nil {
				break
			}
			iff, ok := terminator(id).(*ssa.If)
			if !ok {
				continue
			}
			bo, ok := iff.Cond.(*ssa.BinOp)
			if !ok {
				continue
			}
			lenOfErrors := func(v ssa.Value) bool {
				c, ok := isBuiltinCall(v, "len")
				if !ok {
					return false
				}
				u, ok := c.Call.Args[0].(*ssa.UnOp)
				return ok && u.Op == token.MUL && fieldKey(u.X) == pr.errorField
			}
			zero := func(v ssa.Value) bool { n, ok := constInt(v); return ok && n == 0 }
			if !(lenOfErrors(bo.X) && zero(bo.Y)) {
				continue
			}
			if bo.Op == token.EQL && id.Succs[0] == d && len(d.Preds) == 1 {
				guarded = true
			}
			if (bo.Op == token.NEQ || bo.Op == token.GTR) && id.Succs[1] == d && len(d.Preds) == 1 {
				guarded = true
			}
		}
		if !guarded {
			okAll = false
		}
	}
	r.Check(okAll && n > 0, "Parse returns a nil error only when no error was recorded", p.Pos(parse.Pos()), fmt.Sprintf("%d success return(s), each under len(errors)==0", n), "Parse can return a nil error although the parser's error list is not empty: recorded syntax errors are lost and Prepare succeeds")
}

// ---------------------------------------------------------------------------
// R-BLOCKOPEN

func tokenConst(p *Program, name string) (string, bool) {
	pk := p.ByPath[Mod+"/token"]
	c, ok := pk.Types.Scope().Lookup(name).(*types.Const)
	if !ok || c.Val().Kind() != constant.String {
		return "", false
	}
	return constant.StringVal(c.Val()), true
}

func ruleBlockOpen(p *Program, r *Reporter) {
	pr := resolveParserRoles(p, r)
	if pr == nil {
		return
	}
	lbrace, ok := tokenConst(p, "LBRACE")
	if !ok {
		r.Undecided("token.LBRACE", "-", "cannot read the constant")
		return
	}
	// block parser: the parse function returning *ast.BlockStatement
	var block *ssa.Function
	// (a function with a second result is a helper that hands a block back —
	// `parseElse() (*ast.BlockStatement, bool)` — not the parser of blocks; of
	// several candidates the one with the statement loop is meant)
	for fn := range pr.parseFns {
		rs := sigResults(fn)
		if len(rs) == 1 && isPointer(rs[0]) && isNamed(rs[0], "ast", "BlockStatement") {
			loops := func(f *ssa.Function) bool {
				for _, b := range f.Blocks {
					for _, sc := range b.Succs {
						if sc.Dominates(b) {
							return true
						}
					}
				}
				for _, b := range f.Blocks {
					for _, ins := range b.Instrs {
						if cc := callOf(ins); cc != nil && cc.StaticCallee() != nil && cc.StaticCallee() != f && recvNamed(cc.StaticCallee(), "parser", "Parser") && !pr.parseFns[cc.StaticCallee()] {
							for _, hb := range cc.StaticCallee().Blocks {
								for _, sc := range hb.Succs {
									if sc.Dominates(hb) {
										return true
									}
								}
							}
						}
					}
				}
				return false
			}
			if block == nil || loops(fn) && !loops(block) || loops(fn) == loops(block) && p.FnName(fn) < p.FnName(block) {
				block = fn
			}
		}
	}
	if block == nil {
		r.Undecided("block parser", "-", "no parse function returns *ast.BlockStatement")
		return
	}
	for _, fn := range pr.all {
		for _, b := range fn.Blocks {
			for _, ins := range b.Instrs {
				call, ok := staticCalleeIs(ins, block)
				if !ok {
					continue
				}
				key := p.FnName(fn) + "/block parsed after '{' was demanded"
				// walk backwards: the first token-moving call on every path must be
				// a successful expect of LBRACE.
				good := true
				why := ""
				walkBackward(call, func(i2 ssa.Instruction) bool {
					c2, isCall := i2.(*ssa.Call)
					if !isCall {
						return false
					}
					cal := c2.Call.StaticCallee()
					if pr.isExpect(cal) {
						cal = pr.expect
					}
					switch cal {
					case pr.expect:
						k, isC := c2.Call.Args[1].(*ssa.Const)
						if !isC || k.Value == nil || constant.StringVal(k.Value) != lbrace {
							good, why = false, "the expectation before the block is not for '{'"
							return true
						}
						// success edge must dominate the block-parser call
						if !expectSuccessDominates(c2, call) {
							good, why = false, "the result of the '{' expectation does not guard the block parser"
						}
						return true
					case pr.advance:
						good, why = false, "the parser advances a token without looking at it ("+p.Pos(c2.Pos())+") before parsing the block: any token is accepted in place of '{'"
						return true
					}
					if cal != nil && pr.parseFns[cal] {
						// a sub-parser that ends by demanding '{' (the signature of a
						// function definition parsed by a function of its own): the
						// block follows on its non-nil result
						if endsByDemanding(pr, cal, lbrace) && nonNilAt(c2, call) {
							return true
						}
						good, why = false, "a sub-parser runs between the '{' check and the block"
						return true
					}
					return false
				}, func() { good, why = false, "no '{' expectation on a path from the function entry" })
				if good {
					r.OkNT(key, p.Pos(call.Pos()), "guarded by a successful expectation of '{'")
				} else {
					r.Fail(key, p.Pos(call.Pos()), why)
				}
			}
		}
	}
}

// expectSuccessDominates: the call result e feeds an If (possibly through !)
// whose success successor dominates `at`.
func expectSuccessDominates(e *ssa.Call, at ssa.Instruction) bool {
	var chk func(v ssa.Value, neg bool) bool
	chk = func(v ssa.Value, neg bool) bool {
		for _, ref := range liveRefs(v) {
			switch x := ref.(type) {
			case *ssa.UnOp:
				if x.Op == token.NOT && chk(x, !neg) {
					return true
				}
			case *ssa.If:
				succ := x.Block().Succs[0]
				if neg {
					succ = x.Block().Succs[1]
				}
				if len(succ.Preds) == 1 && (succ == at.Block() || succ.Dominates(at.Block())) {
					return true
				}
			}
		}
		return false
	}
	return chk(e, false)
}

// ---------------------------------------------------------------------------
// R-PRECTABLE / R-INFIXSET

// precedenceTable reads the map[token.Type]int literal of package parser.
func precedenceTable(p *Program) (map[string]int64, token.Pos, bool) {
	pk := p.ByPath[Mod+"/parser"]
	// a table of rules (binding power and parse function per token), as a
	// package-level literal or assigned while the package is initialised
	var lits []*ast.CompositeLit
	for _, f := range pk.Syntax {
		ast.Inspect(f, func(n ast.Node) bool {
			if cl, ok := n.(*ast.CompositeLit); ok {
				if tv, ok := pk.TypesInfo.Types[cl]; ok {
					if mt, ok := tv.Type.Underlying().(*types.Map); ok && isNamed(mt.Key(), "token", "Type") {
						if st, ok := mt.Elem().Underlying().(*types.Struct); ok {
							hasInt, hasFn := false, false
							for i := 0; i < st.NumFields(); i++ {
								if isInt(st.Field(i).Type()) {
									hasInt = true
								}
								if _, isFn := st.Field(i).Type().Underlying().(*types.Signature); isFn {
									hasFn = true
								}
							}
							if hasInt && hasFn {
								lits = append(lits, cl)
							}
						}
					}
				}
			}
			return true
		})
	}
	if len(lits) == 1 {
		cl := lits[0]
		st := pk.TypesInfo.Types[cl].Type.Underlying().(*types.Map).Elem().Underlying().(*types.Struct)
		intField := -1
		for i := 0; i < st.NumFields(); i++ {
			if isInt(st.Field(i).Type()) && intField < 0 {
				intField = i
			}
		}
		out := map[string]int64{}
		good := true
		for _, el := range cl.Elts {
			kv, ok := el.(*ast.KeyValueExpr)
			if !ok {
				good = false
				break
			}
			k := pk.TypesInfo.Types[kv.Key].Value
			inner, ok := kv.Value.(*ast.CompositeLit)
			if k == nil || !ok {
				good = false
				break
			}
			var ve ast.Expr
			for i, e := range inner.Elts {
				if ikv, ok := e.(*ast.KeyValueExpr); ok {
					if id, ok := ikv.Key.(*ast.Ident); ok && id.Name == st.Field(intField).Name() {
						ve = ikv.Value
					}
				} else if i == intField {
					ve = e
				}
			}
			if ve == nil || pk.TypesInfo.Types[ve].Value == nil {
				good = false
				break
			}
			iv, _ := constant.Int64Val(pk.TypesInfo.Types[ve].Value)
			out[constant.StringVal(k)] = iv
		}
		if good && len(out) > 0 {
			return out, cl.Pos(), true
		}
	}
	for _, f := range pk.Syntax {
		for _, d := range f.Decls {
			gd, ok := d.(*ast.GenDecl)
			if !ok || gd.Tok != token.VAR {
				continue
			}
			for _, sp := range gd.Specs {
				vs := sp.(*ast.ValueSpec)
				for _, val := range vs.Values {
					cl, ok := val.(*ast.CompositeLit)
					if !ok {
						continue
					}
					mt, ok := pk.TypesInfo.Types[cl].Type.Underlying().(*types.Map)
					if !ok || !isNamed(mt.Key(), "token", "Type") || !isInt(mt.Elem()) {
						continue
					}
					out := map[string]int64{}
					for _, el := range cl.Elts {
						kv := el.(*ast.KeyValueExpr)
						k := pk.TypesInfo.Types[kv.Key].Value
						v := pk.TypesInfo.Types[kv.Value].Value
						if k == nil || v == nil {
							return nil, cl.Pos(), false
						}
						iv, _ := constant.Int64Val(v)
						out[constant.StringVal(k)] = iv
					}
					return out, cl.Pos(), true
				}
			}
		}
	}
	return nil, token.NoPos, false
}

// parseExprCalls lists calls of the Pratt entry with a description of the
// binding-power argument.
type exprCall struct {
	fn    *ssa.Function
	call  *ssa.Call
	konst int64
	isK   bool
	isCur bool // value of the current-token precedence lookup
}

func parseExprCalls(p *Program, pr *parserRoles, parseExpr *ssa.Function) []exprCall {
	var out []exprCall
	for _, fn := range pr.all {
		for _, b := range fn.Blocks {
			for _, ins := range b.Instrs {
				c, ok := staticCalleeIs(ins, parseExpr)
				if !ok {
					continue
				}
				ec := exprCall{fn: fn, call: c}
				arg := c.Call.Args[1]
				if k, ok := constInt(arg); ok {
					ec.konst, ec.isK = k, true
				} else {
					for _, o := range origins(arg) {
						if oc, ok := o.(*ssa.Call); ok && oc.Call.StaticCallee() == pr.curPrec {
							ec.isCur = true
						}
					}
				}
				out = append(out, ec)
			}
		}
	}
	return out
}

// keywordTable reads the map[string]token.Type literal of package token:
// keyword spelling → token type value.
func keywordTable(p *Program) map[string]string {
	pk := p.ByPath[Mod+"/token"]
	out := map[string]string{}
	for _, f := range pk.Syntax {
		ast.Inspect(f, func(n ast.Node) bool {
			cl, ok := n.(*ast.CompositeLit)
			if !ok {
				return true
			}
			mt, ok := pk.TypesInfo.Types[cl].Type.Underlying().(*types.Map)
			if !ok || !isNamed(mt.Elem(), "token", "Type") {
				return true
			}
			for _, el := range cl.Elts {
				if kv, ok := el.(*ast.KeyValueExpr); ok {
					k, v := pk.TypesInfo.Types[kv.Key].Value, pk.TypesInfo.Types[kv.Value].Value
					if k != nil && v != nil {
						out[constant.StringVal(k)] = constant.StringVal(v)
					}
				}
			}
			return true
		})
	}
	return out
}

// defaultReturn: the constant a lookup function returns when the key is not in
// its table — returned by the function itself or by the function it hands the
// lookup to.
func defaultReturn(fn *ssa.Function, depth int) (int64, bool) {
	if fn == nil || depth > 3 {
		return 0, false
	}
	var out int64
	found := false
	for _, b := range fn.Blocks {
		ret, ok := terminator(b).(*ssa.Return)
		if !ok || len(ret.Results) == 0 {
			continue
		}
		if k, ok := constInt(ret.Results[0]); ok {
			out, found = k, true
			continue
		}
		if c, ok := ret.Results[0].(*ssa.Call); ok && c.Call.StaticCallee() != nil && fnPkg(c.Call.StaticCallee()) == fnPkg(fn) {
			if k, ok := defaultReturn(c.Call.StaticCallee(), depth+1); ok {
				out, found = k, true
			}
		}
	}
	return out, found
}

func rulePrecTable(p *Program, r *Reporter) {
	tbl, pos, ok := precedenceTable(p)
	if !ok {
		r.Undecided("precedence table", "-", "cannot read a map[token.Type]int literal with constant keys and values in package parser")
		return
	}
	pr := resolveParserRoles(p, r)
	a := needAnchors(p, r)
	if pr == nil || a == nil {
		return
	}
	// the prefix level: argument used by the parselet registered for prefix '!'
	bang, _ := tokenConst(p, "BANG")
	var prefixLevel, lowest int64 = -1, -1
	regs := registrations(p)
	calls := parseExprCalls(p, pr, a.parseExpr)
	for _, rg := range regs {
		if rg.table != "" && rg.tok == bang && rg.method != nil && strings.Contains(strings.ToLower(rg.table), "prefix") {
			for _, c := range calls {
				if c.fn == rg.method && c.isK {
					prefixLevel = c.konst
				}
			}
		}
	}
	// lowest: the default returned by the precedence lookups when the token is
	// not in the table
	if k, ok := defaultReturn(pr.peekPrec, 0); ok {
		lowest = k
	}
	if prefixLevel < 0 || lowest < 0 {
		r.Undecided("prefix/lowest levels", p.Pos(pos), fmt.Sprintf("cannot determine the prefix level (%d) or the default level (%d)", prefixLevel, lowest))
		return
	}
	kw := keywordTable(p)
	level := func(tok string) (int64, bool) {
		switch tok {
		case "<prefix>":
			return prefixLevel, true
		case "<lowest>":
			return lowest, true
		}
		if t, ok := kw[tok]; ok { // keyword operators (in): spelling → token type
			tok = t
		}
		v, ok := tbl[tok]
		return v, ok
	}
	// within a group: equal; between consecutive groups: strictly decreasing
	// (first group vs prefix: >=)
	for gi, g := range specPrecedenceChain {
		var base int64
		haveBase := false
		for _, tok := range g {
			v, ok := level(tok)
			key := "level of " + tok
			if !ok {
				r.Fail(key, p.Pos(pos), "the language's operator "+tok+" has no entry in the precedence table: it binds at the lowest level")
				continue
			}
			if gi == 0 {
				// index/call: only constrained against prefix
				if v >= prefixLevel {
					r.Ok(key, p.Pos(pos), fmt.Sprintf("%d >= prefix %d", v, prefixLevel))
				} else {
					r.Fail(key, p.Pos(pos), fmt.Sprintf("%s binds at %d, looser than prefix operators (%d): -a[0] would parse as (-a)[0]", tok, v, prefixLevel))
				}
				continue
			}
			if !haveBase {
				base, haveBase = v, true
			} else if v != base {
				r.Fail(key, p.Pos(pos), fmt.Sprintf("%s binds at %d but %s, documented at the same level, at %d", tok, v, g[0], base))
				continue
			}
			// strictly below the previous group
			if gi >= 2 {
				prev := specPrecedenceChain[gi-1]
				pv, pok := level(prev[0])
				if pok && !(v < pv) {
					r.Fail(key, p.Pos(pos), fmt.Sprintf("%s (level %d) must bind looser than %s (level %d)", tok, v, prev[0], pv))
					continue
				}
			}
			r.Ok(key, p.Pos(pos), fmt.Sprintf("level %d", v))
		}
	}
}

func ruleInfixSet(p *Program, r *Reporter) {
	tbl, pos, ok := precedenceTable(p)
	if !ok {
		r.Undecided("precedence table", "-", "cannot read the precedence table")
		return
	}
	infix := map[string]token.Pos{}
	for _, rg := range registrations(p) {
		if strings.Contains(strings.ToLower(rg.table), "infix") {
			infix[rg.tok] = rg.pos
		}
	}
	if len(infix) == 0 {
		r.Undecided("infix registrations", "-", "no infix registrations found")
		return
	}
	var toks []string
	for t := range tbl {
		toks = append(toks, t)
	}
	for t := range infix {
		if _, ok := tbl[t]; !ok {
			toks = append(toks, t)
		}
	}
	sort.Strings(toks)
	for _, t := range toks {
		_, inT := tbl[t]
		_, inI := infix[t]
		key := "token " + t
		switch {
		case inT && inI:
			r.Ok(key, p.Pos(infix[t]), "registered and has a binding power")
		case inT:
			r.Fail(key, p.Pos(pos), "token "+t+" has a binding power but no infix parselet: the Pratt loop stops with 'unexpected nil expression' instead of parsing the operator")
		default:
			r.Fail(key, p.Pos(infix[t]), "token "+t+" has an infix parselet but no binding power: the Pratt loop never enters it, the operator is silently not parsed")
		}
	}
}

// ---------------------------------------------------------------------------
// R-PRATT

func rulePratt(p *Program, r *Reporter) {
	pr := resolveParserRoles(p, r)
	a := needAnchors(p, r)
	if pr == nil || a == nil {
		return
	}
	// (a) strict < in the loop condition
	found := false
	// the loop sits in the expression parser itself or in a function it hands
	// its binding power to
	loopFns := []*ssa.Function{a.parseExpr}
	passedOn := map[*ssa.Function]int{}
	for _, b := range a.parseExpr.Blocks {
		for _, ins := range b.Instrs {
			c, ok := ins.(*ssa.Call)
			if !ok || c.Call.StaticCallee() == nil || c.Call.StaticCallee() == a.parseExpr {
				continue
			}
			for i, arg := range c.Call.Args {
				if prm, ok := arg.(*ssa.Parameter); ok && isInt(prm.Type()) {
					passedOn[c.Call.StaticCallee()] = i
					loopFns = append(loopFns, c.Call.StaticCallee())
				}
			}
		}
	}
	for _, lf := range loopFns {
		for _, b := range lf.Blocks {
			for _, ins := range b.Instrs {
				bo, ok := ins.(*ssa.BinOp)
				if !ok {
					continue
				}
				isPeek := func(v ssa.Value) bool {
					c, ok := v.(*ssa.Call)
					return ok && c.Call.StaticCallee() == pr.peekPrec
				}
				isParam := func(v ssa.Value) bool {
					for _, o := range origins(v) {
						if prm, ok := o.(*ssa.Parameter); ok {
							if lf == a.parseExpr {
								return true
							}
							if i, ok := passedOn[lf]; ok && i < len(lf.Params) && lf.Params[i] == prm {
								return true
							}
						}
					}
					return false
				}
				var strict, relevant bool
				switch {
				case isParam(bo.X) && isPeek(bo.Y):
					relevant, strict = true, bo.Op == token.LSS
				case isPeek(bo.X) && isParam(bo.Y):
					relevant, strict = true, bo.Op == token.GTR
				}
				if !relevant {
					continue
				}
				found = true
				r.Check(strict, "Pratt loop comparison is strict", p.Pos(bo.Pos()), "precedence < next operator's", fmt.Sprintf("the loop continues on %q between the caller's binding power and the next operator's: equal levels then group right-to-left (a - b - c parses as a - (b - c))", bo.Op))
			}
		}
	}
	if !found {
		r.Undecided("Pratt loop comparison", p.Pos(a.parseExpr.Pos()), "no comparison between the binding-power parameter and the next-token lookup found")
	}
	// (b) capture before advance, (c) levels of recursive calls
	regs := registrations(p)
	role := map[*ssa.Function]string{}
	for _, rg := range regs {
		if rg.method == nil {
			continue
		}
		t := strings.ToLower(rg.table)
		switch {
		case strings.Contains(t, "infix"):
			role[rg.method] = "infix"
		case strings.Contains(t, "prefix"):
			if role[rg.method] == "" {
				role[rg.method] = "prefix"
			}
		}
	}
	lowest := int64(-1)
	if k, ok := defaultReturn(pr.peekPrec, 0); ok {
		lowest = k
	}
	for _, c := range parseExprCalls(p, pr, a.parseExpr) {
		key := p.FnName(c.fn) + "/recursive parse level"
		switch {
		case c.isCur:
			// the lookup must precede any advance on every path from entry
			var look *ssa.Call
			for _, o := range origins(c.call.Call.Args[1]) {
				if oc, ok := o.(*ssa.Call); ok && oc.Call.StaticCallee() == pr.curPrec {
					look = oc
				}
			}
			advanced := token.NoPos
			walkBackward(look, func(ins ssa.Instruction) bool {
				if cc, ok := ins.(*ssa.Call); ok {
					cal := cc.Call.StaticCallee()
					if cal == pr.advance || pr.isExpect(cal) {
						advanced = cc.Pos()
						return true
					}
				}
				return false
			}, nil)
			exact := true
			for _, o := range originsThroughPhi(c.call.Call.Args[1], 4) {
				if oc, ok := o.(*ssa.Call); !ok || oc.Call.StaticCallee() != pr.curPrec {
					exact = false
				}
			}
			if !exact {
				r.Fail(key, p.Pos(c.call.Pos()), "the operator's binding power is adjusted on some path before the operand is parsed with it: for the operators that path applies to, a following operator of the same level is taken into the right operand (or one of the next level is cut off), so equal levels no longer group left-to-right")
				continue
			}
			if advanced.IsValid() {
				r.Fail(key, p.Pos(look.Pos()), "the operator's binding power is read after the parser advanced past the operator ("+p.Pos(advanced)+"): the operands are parsed with the binding power of whatever token comes next, so grouping depends on the operand's first token")
			} else {
				r.OkNT(key, p.Pos(look.Pos()), "binding power of the operator token, read before advancing")
			}
		case c.isK:
			want := "lowest"
			ok := c.konst == lowest
			if role[c.fn] == "prefix" && isPrefixOperatorParselet(c.fn) {
				want = "prefix"
				ok = c.konst > lowest
			}
			r.Check(ok, key, p.Pos(c.call.Pos()), fmt.Sprintf("constant level %d (%s)", c.konst, want), fmt.Sprintf("a bracketed/statement-level sub-expression is parsed at level %d instead of the lowest level %d: operators looser than that are cut off", c.konst, lowest))
		default:
			r.Undecided(key, p.Pos(c.call.Pos()), "binding-power argument is neither a constant nor the current operator's")
		}
	}
}

// isPrefixOperatorParselet: builds an *ast.PrefixExpression.
func isPrefixOperatorParselet(fn *ssa.Function) bool {
	for _, b := range fn.Blocks {
		for _, ins := range b.Instrs {
			if al, ok := ins.(*ssa.Alloc); ok && isNamed(al.Type(), "ast", "PrefixExpression") {
				return true
			}
		}
	}
	return false
}

// ---------------------------------------------------------------------------
// R-TERNGUARD / R-LOCALGUARD / R-TOPSTOP

func ruleTernGuard(p *Program, r *Reporter) {
	pr := resolveParserRoles(p, r)
	if pr == nil {
		return
	}
	// the ternary parselet: builds *ast.TernaryExpression
	var fn *ssa.Function
	var alloc *ssa.Alloc
	for f := range pr.parseFns {
		for _, b := range f.Blocks {
			for _, ins := range b.Instrs {
				if al, ok := ins.(*ssa.Alloc); ok && al.Heap && isNamed(al.Type(), "ast", "TernaryExpression") {
					fn, alloc = f, al
				}
			}
		}
	}
	if fn == nil {
		r.Undecided("ternary parselet", "-", "no parse function builds *ast.TernaryExpression")
		return
	}
	// the flag: a bool field of Parser loaded in the entry block and tested
	entry := fn.Blocks[0]
	iff, ok := terminator(entry).(*ssa.If)
	var flag string
	if ok {
		if ld, ok := iff.Cond.(*ssa.UnOp); ok && ld.Op == token.MUL {
			flag = fieldKey(ld.X)
		}
	}
	if flag == "" || !strings.HasPrefix(flag, "parser.Parser.") {
		r.Fail("ternary nesting flag tested first", p.Pos(fn.Pos()), "the ternary parselet does not start by testing an in-ternary flag of the parser: nested ternaries are accepted")
		return
	}
	// true edge returns nil with an error recorded (R-NILERR covers recording)
	tb := entry.Succs[0]
	ret, isRet := terminator(tb).(*ssa.Return)
	r.Check(isRet && isNilConst(returnOperand(ret, 0)), "ternary nesting flag tested first", p.Pos(iff.Pos()), "flag set → nil (error recorded: R-NILERR)", "when the in-ternary flag is set the parselet must return nil (with an error)")
	// set before the arms are parsed
	var setTrue ssa.Instruction
	storesTrue := func(ins ssa.Instruction) bool {
		if st, ok := ins.(*ssa.Store); ok && fieldKey(st.Addr) == flag {
			if c, ok := st.Val.(*ssa.Const); ok && c.Value != nil && c.Value.Kind() == constant.Bool && constant.BoolVal(c.Value) {
				return true
			}
		}
		return false
	}
	for _, b := range fn.Blocks {
		for _, ins := range b.Instrs {
			// the store itself, or a call of a method that makes it on all its paths
			if performs(ins, storesTrue, 1) {
				setTrue = ins
			}
		}
	}
	armsGuarded := setTrue != nil
	if setTrue != nil {
		a, _ := p.Anchors()
		for _, b := range fn.Blocks {
			for _, ins := range b.Instrs {
				if c, ok := staticCalleeIs(ins, a.parseExpr); ok && !dominatesInstr(setTrue, c) {
					armsGuarded = false
				}
			}
		}
	}
	r.Check(armsGuarded, "ternary flag set before the arms are parsed", p.Pos(alloc.Pos()), "store of true dominates every recursive parse", "the in-ternary flag is not set before the arms are parsed: a ternary inside an arm is not detected")
	// cleared by a deferred closure
	cleared := false
	for _, b := range fn.Blocks {
		for _, ins := range b.Instrs {
			d, ok := ins.(*ssa.Defer)
			if !ok {
				continue
			}
			var body *ssa.Function
			if mc, ok := d.Call.Value.(*ssa.MakeClosure); ok {
				body, _ = mc.Fn.(*ssa.Function)
			} else if f := d.Call.StaticCallee(); f != nil {
				body = f
			}
			if body == nil {
				continue
			}
			for _, bb := range body.Blocks {
				for _, i2 := range bb.Instrs {
					if st, ok := i2.(*ssa.Store); ok && fieldKey(st.Addr) == flag {
						if c, ok := st.Val.(*ssa.Const); ok && c.Value != nil && !constant.BoolVal(c.Value) {
							if setTrue == nil || dominatesInstr(setTrue, d) || setTrue.Block() == d.Block() {
								cleared = true
							}
						}
					}
				}
			}
		}
	}
	if !cleared {
		// accepted alternative: every return after the set is preceded by a store of false
		cleared = setTrue != nil
		for _, b := range fn.Blocks {
			if _, ok := terminator(b).(*ssa.Return); ok && setTrue != nil && (setTrue.Block() == b || setTrue.Block().Dominates(b)) {
				has := false
				for _, ins := range b.Instrs {
					if st, ok := ins.(*ssa.Store); ok && fieldKey(st.Addr) == flag {
						if c, ok := st.Val.(*ssa.Const); ok && c.Value != nil && !constant.BoolVal(c.Value) {
							has = true
						}
					}
				}
				if !has {
					cleared = false
				}
			}
		}
	}
	// nobody but the ternary parselet (and what it defers) writes the flag: a
	// list or a bracket that clears it for its own items lets a ternary nest
	{
		var who *ssa.Function
		var at token.Pos
		// (a part of the ternary parselet — a function that nothing else calls —
		// is the parselet)
		var partOf func(g *ssa.Function, depth int) bool
		partOf = func(g *ssa.Function, depth int) bool {
			g = top(g)
			if g == fn {
				return true
			}
			if depth > 2 {
				return false
			}
			sites := staticCallSites(p, g)
			if len(sites) == 0 {
				return false
			}
			for _, s := range sites {
				if !partOf(s.Parent(), depth+1) {
					return false
				}
			}
			return true
		}
		for _, g := range pr.all {
			if partOf(g, 0) {
				continue
			}
			for _, b := range g.Blocks {
				for _, ins := range b.Instrs {
					if st, ok := ins.(*ssa.Store); ok && fieldKey(st.Addr) == flag && who == nil {
						who, at = g, st.Pos()
					}
				}
			}
		}
		if who != nil {
			r.Fail("the in-ternary flag is written by the ternary parselet only", p.Pos(at), p.FnName(who)+" writes the in-ternary flag: while it has cleared it, a ternary inside the arm of another ternary is not seen — `a ? len(a ? \"ab\" : \"c\") : 3` is accepted although nested ternaries are a syntax error")
		} else {
			r.OkNT("the in-ternary flag is written by the ternary parselet only", p.Pos(fn.Pos()), "no other parse function stores into it")
		}
	}
	r.Check(cleared, "ternary flag cleared on every exit", p.Pos(fn.Pos()), "deferred (or per-return) store of false", "the in-ternary flag stays set on some exit: every later ternary in the script is rejected as nested")
	// the condition was parsed before the parselet ran (the flag was clear):
	// it must be examined for a ternary of its own
	key := "the condition of a ternary is examined for a ternary"
	if len(fn.Params) < 2 {
		r.Undecided(key, p.Pos(fn.Pos()), "the parselet has no condition parameter")
		return
	}
	cond := ssa.Value(fn.Params[1])
	assertsTernary := func(f *ssa.Function, v ssa.Value) bool {
		for _, b := range f.Blocks {
			for _, ins := range b.Instrs {
				if ta, ok := ins.(*ssa.TypeAssert); ok {
					pt, ok := ta.AssertedType.(*types.Pointer)
					if !ok || !isNamed(pt.Elem(), "ast", "TernaryExpression") {
						continue
					}
					if ta.X == v {
						return true
					}
					// the node tested is taken from a list of nodes still to
					// be looked at, which starts with the one handed in
					if _, ok := worklistSearch(f, v); ok {
						return true
					}
				}
			}
		}
		return false
	}
	examined := assertsTernary(fn, cond)
	var test ssa.Value
	if !examined {
		for _, b := range fn.Blocks {
			for _, ins := range b.Instrs {
				c, ok := ins.(*ssa.Call)
				if !ok || c.Call.StaticCallee() == nil || fnPkg(c.Call.StaticCallee()) == nil || fnPkg(c.Call.StaticCallee()).Pkg.Path() != Mod+"/parser" {
					continue
				}
				for i, a := range c.Call.Args {
					h := c.Call.StaticCallee()
					if ci, ok := a.(*ssa.ChangeInterface); ok {
						a = ci.X // handed on as a more general interface
					}
					if a == cond && i < len(h.Params) && assertsTernary(h, h.Params[i]) {
						examined, test = true, c
					}
				}
			}
		}
	}
	rejects := examined
	if test != nil {
		rejects = false
		for _, ref := range *test.Referrers() {
			if iff, ok := ref.(*ssa.If); ok && allReturnsNil(iff.Block().Succs[0]) {
				rejects = true
			}
		}
	}
	if test != nil {
		ternarySearchComplete(p, r, test.(*ssa.Call).Call.StaticCallee())
	}
	r.Check(examined && rejects, key, p.Pos(fn.Pos()), "the condition is tested for *ast.TernaryExpression and a hit fails the parse", "the ternary parselet never looks into its condition, which was parsed before the in-ternary flag was set: `a ? b : c ? d : e` — the first ternary becomes the condition of the second — is accepted although nesting ternaries is documented as a syntax error")
}

// ternarySearchComplete: the function that looks for a ternary inside the
// condition has a case for every kind of node that can hold an expression and
// can occur inside an expression, and each case mentions every such child of
// the node.  A kind without a case hides whatever is below it.
func ternarySearchComplete(p *Program, r *Reporter, h *ssa.Function) {
	decl := p.FuncDecl(h)
	info := p.Info(h)
	astPk := p.ByPath[Mod+"/ast"]
	if decl == nil || info == nil || astPk == nil {
		r.Undecided("ternary search covers every kind of node", "-", "no syntax for the search function")
		return
	}
	scope := astPk.Types.Scope()
	exprIface, _ := scope.Lookup("Expression").Type().Underlying().(*types.Interface)
	if exprIface == nil {
		r.Undecided("ternary search covers every kind of node", "-", "ast.Expression is not an interface")
		return
	}
	// the struct types of package ast, by pointer
	var structs []*types.Named
	for _, n := range scope.Names() {
		if tn, ok := scope.Lookup(n).(*types.TypeName); ok {
			if nm, ok := tn.Type().(*types.Named); ok {
				if _, isSt := nm.Underlying().(*types.Struct); isSt {
					structs = append(structs, nm)
				}
			}
		}
	}
	implementers := func(it *types.Interface) []*types.Named {
		var out []*types.Named
		for _, nm := range structs {
			if types.Implements(types.NewPointer(nm), it) {
				out = append(out, nm)
			}
		}
		return out
	}
	// the node types a field type can hold
	var holds func(t types.Type) []*types.Named
	holds = func(t types.Type) []*types.Named {
		switch u := t.(type) {
		case *types.Pointer:
			if nm, ok := types.Unalias(u.Elem()).(*types.Named); ok && nm.Obj().Pkg() == astPk.Types {
				if _, isSt := nm.Underlying().(*types.Struct); isSt {
					return []*types.Named{nm}
				}
			}
		case *types.Slice:
			return holds(u.Elem())
		case *types.Map:
			return append(holds(u.Key()), holds(u.Elem())...)
		case *types.Named, *types.Alias:
			if it, ok := t.Underlying().(*types.Interface); ok && t.(interface{ Obj() *types.TypeName }).Obj().Pkg() == astPk.Types {
				return implementers(it)
			}
		}
		return nil
	}
	// can a ternary be found at or below a node of this type?
	var target *types.Named
	for _, nm := range structs {
		if nm.Obj().Name() == "TernaryExpression" {
			target = nm
		}
	}
	memo := map[*types.Named]int{} // 1 = yes, 2 = no, 3 = in progress
	var canContain func(nm *types.Named) bool
	canContain = func(nm *types.Named) bool {
		if nm == target {
			return true
		}
		switch memo[nm] {
		case 1:
			return true
		case 2, 3:
			return false
		}
		memo[nm] = 3
		st := nm.Underlying().(*types.Struct)
		res := false
		for i := 0; i < st.NumFields(); i++ {
			for _, c := range holds(st.Field(i).Type()) {
				if canContain(c) {
					res = true
				}
			}
		}
		if res {
			memo[nm] = 1
		} else {
			memo[nm] = 2
		}
		return res
	}
	// types reachable below an expression
	reach := map[*types.Named]bool{}
	var visit func(nm *types.Named)
	visit = func(nm *types.Named) {
		if reach[nm] {
			return
		}
		reach[nm] = true
		st := nm.Underlying().(*types.Struct)
		for i := 0; i < st.NumFields(); i++ {
			for _, c := range holds(st.Field(i).Type()) {
				visit(c)
			}
		}
	}
	for _, nm := range implementers(exprIface) {
		visit(nm)
	}
	// the cases of the search — in the search function itself, or in a
	// function that lists the children of a node for it (one that returns
	// only parts of the node it is given, and over whose result the search
	// calls itself)
	hasSwitch := false
	ast.Inspect(decl.Body, func(n ast.Node) bool {
		if _, ok := n.(*ast.TypeSwitchStmt); ok {
			hasSwitch = true
		}
		return true
	})
	if !hasSwitch && len(h.Params) > 0 {
		var prm ssa.Value
		for _, q := range h.Params {
			if isASTish(q.Type()) {
				prm = q
				break
			}
		}
		if g, ok := worklistSearch(h, prm); ok && prm != nil && p.FuncDecl(g) != nil {
			decl, info = p.FuncDecl(g), p.Info(g)
			hasSwitch = true
		}
	}
	if !hasSwitch {
		for _, b := range h.Blocks {
			for _, ins := range b.Instrs {
				cl, ok := ins.(*ssa.Call)
				if !ok {
					continue
				}
				g := cl.Call.StaticCallee()
				if _, ok := returnsPartsOf(g); !ok {
					continue
				}
				// the search is applied to the elements of the result
				applied := false
				for _, b2 := range h.Blocks {
					for _, i2 := range b2.Instrs {
						c2, ok := staticCalleeIs(i2, h)
						if !ok || len(c2.Call.Args) == 0 {
							continue
						}
						if ld, ok := c2.Call.Args[0].(*ssa.UnOp); ok {
							if ia, ok := ld.X.(*ssa.IndexAddr); ok && ia.X == ssa.Value(cl) {
								if _, c, init, step, ok := induction(ia.Index); ok && step == 1 {
									if k0, isC := constInt(init); isC && k0+c == 0 {
										applied = true
									}
								}
							}
						}
					}
				}
				if applied && p.FuncDecl(g) != nil {
					decl, info = p.FuncDecl(g), p.Info(g)
				}
			}
		}
	}
	cases := map[string]*ast.CaseClause{}
	caseInfo := map[*ast.CaseClause]*types.Info{}
	caseVar := map[*ast.CaseClause]*ast.Ident{}
	var swVar *ast.Ident
	// the cases of the type switch — and, when its default clause hands the
	// node on to another walker of the package (the search split by families
	// of nodes), the cases of that one too
	seenDecl := map[*ast.FuncDecl]bool{}
	var collect func(d *ast.FuncDecl, inf *types.Info, depth int)
	collect = func(d *ast.FuncDecl, inf *types.Info, depth int) {
		if d == nil || inf == nil || seenDecl[d] || depth > 5 {
			return
		}
		seenDecl[d] = true
		ast.Inspect(d.Body, func(n ast.Node) bool {
			ts, ok := n.(*ast.TypeSwitchStmt)
			if !ok {
				return true
			}
			var sv *ast.Ident
			if as, ok := ts.Assign.(*ast.AssignStmt); ok && len(as.Lhs) == 1 {
				sv, _ = as.Lhs[0].(*ast.Ident)
			}
			if swVar == nil {
				swVar = sv
			}
			for _, c := range ts.Body.List {
				cc := c.(*ast.CaseClause)
				if cc.List == nil {
					// default: a call of a function of the package with a node argument
					for _, st := range cc.Body {
						ast.Inspect(st, func(x ast.Node) bool {
							ce, ok := x.(*ast.CallExpr)
							if !ok {
								return true
							}
							if fo, ok := calleeObj(inf, ce).(*types.Func); ok && fo.Pkg() != nil && fo.Pkg().Path() == Mod+"/parser" {
								for _, g := range parserFns(p) {
									if g.Object() == types.Object(fo) && g != h {
										collect(p.FuncDecl(g), p.Info(g), depth+1)
									}
								}
							}
							return true
						})
					}
					continue
				}
				for _, e := range cc.List {
					if tv, ok := inf.Types[e]; ok {
						if pt, ok := tv.Type.(*types.Pointer); ok {
							if nm, ok := types.Unalias(pt.Elem()).(*types.Named); ok {
								if _, dup := cases[nm.Obj().Name()]; !dup {
									cases[nm.Obj().Name()] = cc
									caseInfo[cc] = inf
									caseVar[cc] = sv
								}
							}
						}
					}
				}
			}
			return false
		})
	}
	collect(decl, info, 0)
	n := 0
	for _, nm := range structs {
		if !reach[nm] || nm == target || !canContain(nm) {
			continue
		}
		st := nm.Underlying().(*types.Struct)
		for i := 0; i < st.NumFields(); i++ {
			f := st.Field(i)
			deep := false
			for _, c := range holds(f.Type()) {
				if canContain(c) {
					deep = true
				}
			}
			if !deep {
				continue
			}
			n++
			key := fmt.Sprintf("ternary search/*ast.%s/child %s is searched", nm.Obj().Name(), f.Name())
			cc := cases[nm.Obj().Name()]
			if cc == nil {
				r.Fail(key, p.Pos(decl.Pos()), fmt.Sprintf("the search for a ternary inside the condition of a ternary has no case for *ast.%s, which can occur inside an expression and can hold a ternary in %s: a ternary below such a node is not seen, and the nested ternary is accepted", nm.Obj().Name(), f.Name()))
				continue
			}
			mentioned := false
			info, swVar := caseInfo[cc], caseVar[cc]
			for _, stmt := range cc.Body {
				ast.Inspect(stmt, func(x ast.Node) bool {
					if se, ok := x.(*ast.SelectorExpr); ok && se.Sel.Name == f.Name() {
						if id, ok := se.X.(*ast.Ident); ok && swVar != nil && info.Uses[id] != nil && info.Uses[id].Pos() >= cc.Pos() || ok && swVar != nil && id.Name == swVar.Name {
							mentioned = true
						}
					}
					return true
				})
			}
			if mentioned {
				r.OkNT(key, p.Pos(cc.Pos()), "the case reads the child")
			} else {
				r.Fail(key, p.Pos(cc.Pos()), fmt.Sprintf("the case for *ast.%s never reads %s: a ternary there is not seen", nm.Obj().Name(), f.Name()))
			}
		}
	}
	if n == 0 {
		r.Undecided("ternary search covers every kind of node", p.Pos(decl.Pos()), "no node type with children found in package ast")
	}
}

func ruleLocalGuard(p *Program, r *Reporter) {
	pr := resolveParserRoles(p, r)
	if pr == nil {
		return
	}
	n := 0
	for _, fn := range pr.all {
		for _, b := range fn.Blocks {
			for _, ins := range b.Instrs {
				al, ok := ins.(*ssa.Alloc)
				if !ok || !al.Heap || !isNamed(al.Type(), "ast", "LocalVariable") {
					continue
				}
				n++
				guarded := false
				for d := b; d.Idom() != nil; d = d.Idom() {
					id := d.Idom()
					iff, ok := terminator(id).(*ssa.If)
					if !ok || len(d.Preds) != 1 {
						continue
					}
					cond, neg := iff.Cond, false
					if u, ok := cond.(*ssa.UnOp); ok && u.Op == token.NOT {
						cond, neg = u.X, true
					}
					ld, ok := cond.(*ssa.UnOp)
					if !ok || ld.Op != token.MUL {
						continue
					}
					k := fieldKey(ld.X)
					if !strings.HasPrefix(k, "parser.Parser.") || !isBoolType(ld.Type()) {
						continue
					}
					want := id.Succs[0]
					if neg {
						want = id.Succs[1]
					}
					if want == d && flagSetByFunctionParselet(p, pr, k) {
						guarded = true
					}
				}
				r.Check(guarded, p.FnName(fn)+"/local node built only inside a function", p.Pos(al.Pos()), "dominated by the in-function flag", "`local` is accepted outside a function body: the node is built without the in-function flag being tested")
			}
		}
	}
	if n == 0 {
		r.Undecided("local node construction", "-", "no construction of *ast.LocalVariable found")
	}
}

// flagSetByFunctionParselet: the flag field is stored true in the function
// that builds *ast.FunctionDefinition.
func flagSetByFunctionParselet(p *Program, pr *parserRoles, flag string) bool {
	for _, fn := range pr.all {
		builds, sets := false, false
		for _, b := range fn.Blocks {
			for _, ins := range b.Instrs {
				if buildsFunctionDefinition(ins) {
					builds = true
				}
				if st, ok := ins.(*ssa.Store); ok && fieldKey(st.Addr) == flag {
					if c, ok := st.Val.(*ssa.Const); ok && c.Value != nil && constant.BoolVal(c.Value) {
						sets = true
					}
				}
			}
		}
		if builds && sets {
			return true
		}
	}
	return false
}

func ruleTopStop(p *Program, r *Reporter) {
	pr := resolveParserRoles(p, r)
	if pr == nil {
		return
	}
	eof, _ := tokenConst(p, "EOF")
	// the function that builds *ast.Program
	var fn *ssa.Function
	for f := range pr.parseFns {
		rs := sigResults(f)
		if isPointer(rs[0]) && isNamed(rs[0], "ast", "Program") && len(rs) == 1 {
			fn = f
		}
	}
	if fn == nil {
		r.Undecided("program parser", "-", "no parse function returns *ast.Program alone")
		return
	}
	// token kinds compared with the current token's type anywhere in fn
	type cmp struct {
		tok string
		bo  *ssa.BinOp
	}
	var cmps []cmp
	for _, b := range fn.Blocks {
		for _, ins := range b.Instrs {
			bo, ok := ins.(*ssa.BinOp)
			if !ok || (bo.Op != token.NEQ && bo.Op != token.EQL) {
				continue
			}
			k, ok := bo.Y.(*ssa.Const)
			if !ok || k.Value == nil || k.Value.Kind() != constant.String || !isNamed(k.Type(), "token", "Type") {
				continue
			}
			cmps = append(cmps, cmp{constant.StringVal(k.Value), bo})
		}
	}
	stops := map[string]bool{}
	for _, c := range cmps {
		if c.bo.Op == token.NEQ && c.tok != eof {
			stops[c.tok] = true
		}
	}
	a := &nilerr{p: p, pr: pr, AR: map[*ssa.Function]bool{}, FE: map[*ssa.Function]bool{}, dyn: map[string]bool{}}
	if len(stops) == 0 {
		r.OkNT("top-level loop stops only at end of input", p.Pos(fn.Pos()), "no other stop token")
		return
	}
	for tok := range stops {
		// there must be an If on `type == tok` whose true edge records
		good := false
		for _, c := range cmps {
			if c.tok != tok || c.bo.Op != token.EQL {
				continue
			}
			for _, ref := range liveRefs(c.bo) {
				if iff, ok := ref.(*ssa.If); ok {
					tb := iff.Block().Succs[0]
					for _, ins := range tb.Instrs {
						if a.isRecord(ins) {
							good = true
						}
					}
				}
			}
		}
		r.Check(good, "top-level loop stopping at "+tok+" records an error", p.Pos(fn.Pos()), "an error is appended when the loop stopped at this token", "the statement loop stops at token kind "+tok+" and the program is returned without an error: everything from that token on is silently dropped")
	}
}

// worklistSearch: f looks for a ternary with an explicit list of nodes still
// to be examined instead of calling itself: the list starts with the node
// handed in (prm); in a loop that runs while the list is not empty a node is
// taken from it and tested; and a function that appends nothing but parts of
// the node it is given (returnsPartsOf, with the list handed through) puts
// that node's parts on the same list.  The function that lists the parts.
func worklistSearch(f *ssa.Function, prm ssa.Value) (*ssa.Function, bool) {
	if prm == nil {
		return nil, false
	}
	for _, b := range f.Blocks {
		for _, ins := range b.Instrs {
			ta, ok := ins.(*ssa.TypeAssert)
			if !ok {
				continue
			}
			pt, ok := ta.AssertedType.(*types.Pointer)
			if !ok || !isNamed(pt.Elem(), "ast", "TernaryExpression") {
				continue
			}
			// the node tested: an element of a list
			ld, ok := ta.X.(*ssa.UnOp)
			if !ok || ld.Op != token.MUL {
				continue
			}
			ia, ok := ld.X.(*ssa.IndexAddr)
			if !ok {
				continue
			}
			// where the list comes from: back through φ, re-slicing and in-place
			// element swaps to literals and calls
			var calls []*ssa.Call
			hasParam := false
			seen := map[ssa.Value]bool{}
			var back func(v ssa.Value, d int) bool
			back = func(v ssa.Value, d int) bool {
				if v == nil || seen[v] {
					return true
				}
				seen[v] = true
				if d > 12 {
					return false
				}
				switch x := v.(type) {
				case *ssa.Phi:
					for _, e := range x.Edges {
						if !back(e, d+1) {
							return false
						}
					}
					return true
				case *ssa.Slice:
					if al, isAl := x.X.(*ssa.Alloc); isAl {
						elems, ok := listElems(x)
						if !ok {
							return false
						}
						for _, e := range elems {
							if stripIfaceConv(e) == prm || e == prm {
								hasParam = true
							} else {
								return false
							}
						}
						_ = al
						return true
					}
					return back(x.X, d+1)
				case *ssa.Call:
					if _, isB := x.Call.Value.(*ssa.Builtin); isB {
						return false
					}
					calls = append(calls, x)
					return true
				}
				return false
			}
			if !back(ia.X, 0) || !hasParam || len(calls) == 0 {
				continue
			}
			var lister *ssa.Function
			good := true
			for _, c := range calls {
				g := c.Call.StaticCallee()
				k, ok := returnsPartsOf(g)
				if !ok || k >= len(c.Call.Args) || stripIfaceConv(c.Call.Args[k]) != ssa.Value(ld) && c.Call.Args[k] != ssa.Value(ld) {
					good = false
					break
				}
				// the list handed in is this same list
				handed := false
				for i, arg := range c.Call.Args {
					if i != k && types.Identical(arg.Type(), c.Type()) && seen[arg] {
						handed = true
					}
					if i != k && types.Identical(arg.Type(), c.Type()) {
						if sl, isSl := arg.(*ssa.Slice); isSl && seen[sl.X] {
							handed = true
						}
					}
				}
				if !handed {
					good = false
					break
				}
				lister = g
			}
			if !good || lister == nil {
				continue
			}
			// the loop runs while the list is not empty: a test of its length
			// against zero whose failing side cannot reach the test again
			loops := false
			for _, b2 := range f.Blocks {
				iff, ok := terminator(b2).(*ssa.If)
				if !ok {
					continue
				}
				bo, ok := iff.Cond.(*ssa.BinOp)
				if !ok {
					continue
				}
				lc, isLen := isBuiltinCall(bo.X, "len")
				if k0, isC := constInt(bo.Y); isLen && isC && k0 == 0 && bo.Op == token.GTR && seen[lc.Call.Args[0]] {
					if blockReaches(b2.Succs[0], b2, nil) && !blockReaches(b2.Succs[1], b2, nil) {
						loops = true
					}
				}
			}
			if loops {
				return lister, true
			}
		}
	}
	return nil, false
}

// buildsFunctionDefinition: the instruction allocates an *ast.FunctionDefinition,
// or calls a method of the parser that hands one back (the signature of the
// definition parsed by a function of its own).
func buildsFunctionDefinition(ins ssa.Instruction) bool {
	if al, ok := ins.(*ssa.Alloc); ok && al.Heap && isNamed(al.Type(), "ast", "FunctionDefinition") {
		return true
	}
	if c, ok := ins.(*ssa.Call); ok && c.Call.StaticCallee() != nil && recvNamed(c.Call.StaticCallee(), "parser", "Parser") {
		rs := c.Call.StaticCallee().Signature.Results()
		if rs.Len() >= 1 && isPointer(rs.At(0).Type()) && isNamed(rs.At(0).Type(), "ast", "FunctionDefinition") {
			return true
		}
	}
	return false
}

// endsByDemanding: every return of h with a result that is not nil comes
// after a successful expectation of the token kind, with no move of the parser
// in between.
func endsByDemanding(pr *parserRoles, h *ssa.Function, kind string) bool {
	n := 0
	for _, b := range h.Blocks {
		ret, ok := terminator(b).(*ssa.Return)
		if !ok || len(ret.Results) == 0 || isNilConst(ret.Results[0]) {
			continue
		}
		n++
		good := true
		walkBackward(ret, func(ins ssa.Instruction) bool {
			c, isCall := ins.(*ssa.Call)
			if !isCall {
				return false
			}
			cal := c.Call.StaticCallee()
			switch {
			case pr.isExpect(cal):
				k, isC := c.Call.Args[1].(*ssa.Const)
				if !isC || k.Value == nil || k.Value.Kind() != constant.String || constant.StringVal(k.Value) != kind || !expectSuccessDominates(c, ret) {
					good = false
				}
				return true
			case cal == pr.advance, cal != nil && pr.parseFns[cal]:
				good = false
				return true
			}
			return false
		}, func() { good = false })
		if !good {
			return false
		}
	}
	return n > 0
}

// localEntryTable: the two values are fields of the element a range loop
// takes out of a slice literal that is local to the function — the array
// behind the literal, the two field indexes and the number of entries.
func localEntryTable(kv, fv ssa.Value) (al *ssa.Alloc, kf, ff, n int, ok bool) {
	strip := func(v ssa.Value) ssa.Value {
		for {
			if ct, isCT := v.(*ssa.ChangeType); isCT {
				v = ct.X
				continue
			}
			return v
		}
	}
	fieldOfElem := func(v ssa.Value) (*ssa.Alloc, int, bool) {
		switch x := strip(v).(type) {
		case *ssa.Field:
			ld, ok := x.X.(*ssa.UnOp)
			if !ok || ld.Op != token.MUL {
				return nil, 0, false
			}
			ia, ok := ld.X.(*ssa.IndexAddr)
			if !ok {
				return nil, 0, false
			}
			if a, ok := literalArray(ia.X); ok {
				return a, x.Field, true
			}
		case *ssa.UnOp:
			// entry kept in a variable: *(&entry.field) with entry stored from the element
			if fa, ok := x.X.(*ssa.FieldAddr); ok && x.Op == token.MUL {
				if ia, ok := fa.X.(*ssa.IndexAddr); ok {
					if a, ok := literalArray(ia.X); ok {
						return a, fa.Field, true
					}
				}
				if loc, ok := fa.X.(*ssa.Alloc); ok && loc.Referrers() != nil {
					for _, ref := range *loc.Referrers() {
						if st, ok := ref.(*ssa.Store); ok && st.Addr == ssa.Value(loc) {
							if ld, ok := st.Val.(*ssa.UnOp); ok && ld.Op == token.MUL {
								if ia, ok := ld.X.(*ssa.IndexAddr); ok {
									if a, ok := literalArray(ia.X); ok {
										return a, fa.Field, true
									}
								}
							}
						}
					}
				}
			}
		}
		return nil, 0, false
	}
	a1, f1, ok1 := fieldOfElem(kv)
	a2, f2, ok2 := fieldOfElem(fv)
	if !ok1 || !ok2 || a1 != a2 {
		return nil, 0, 0, 0, false
	}
	at, isArr := deref(a1.Type()).Underlying().(*types.Array)
	if !isArr {
		return nil, 0, 0, 0, false
	}
	return a1, f1, f2, int(at.Len()), true
}

// literalArray: v is a slice of (or is) a fresh local array that is written
// only through constant indexes (a composite literal).
func literalArray(v ssa.Value) (*ssa.Alloc, bool) {
	if sl, ok := v.(*ssa.Slice); ok {
		v = sl.X
	}
	al, ok := v.(*ssa.Alloc)
	if !ok {
		return nil, false
	}
	if _, isArr := deref(al.Type()).Underlying().(*types.Array); !isArr {
		return nil, false
	}
	return al, true
}

// literalEntryField: the value stored into field f of element i of the literal.
func literalEntryField(al *ssa.Alloc, i, f int) ssa.Value {
	if al.Referrers() == nil {
		return nil
	}
	for _, ref := range *al.Referrers() {
		ia, ok := ref.(*ssa.IndexAddr)
		if !ok {
			continue
		}
		if k, ok := constInt(ia.Index); !ok || int(k) != i {
			continue
		}
		if ia.Referrers() == nil {
			continue
		}
		for _, r2 := range *ia.Referrers() {
			fa, ok := r2.(*ssa.FieldAddr)
			if !ok || fa.Field != f || fa.Referrers() == nil {
				continue
			}
			for _, r3 := range *fa.Referrers() {
				if st, ok := r3.(*ssa.Store); ok && st.Addr == ssa.Value(fa) {
					return st.Val
				}
			}
		}
	}
	return nil
}
