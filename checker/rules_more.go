package main

// Rules added after the first round of independently written breaking changes
// (DESIGN §10): switch default placement, fold-window reset, comma-ok values,
// closed optimizer rewrite set, lock pairing, division context, the parser's
// in-function flag, comment skipping independent of context, use of a result
// before its error is checked.

import (
	"fmt"
	"go/ast"
	"go/constant"
	"go/token"
	"go/types"
	"sort"
	"strings"

	"golang.org/x/tools/go/ssa"
)

func init() {
	register(&Rule{ID: "R-SWITCHDEFAULT", Floor: 1, Run: ruleSwitchDefault,
		Text: "The default arm of a switch is compiled after every case test: no case comparison can be reached once the default block has been emitted, wherever the default was written."})
	register(&Rule{ID: "R-FOLDRESET", Floor: 3, Run: ruleFoldReset,
		Text: "In the constant-folding pass every opcode other than the constant push and the NOP either rewrites and stops the walk, or empties the window of collected constants before the walk continues — on every path, including 'result does not fit'."})
	register(&Rule{ID: "R-COMMAOK", Floor: 30, Run: ruleCommaOk,
		Text: "The value of a comma-ok type assertion or map lookup is used only where its ok result is known to be true; on the other branch it is the zero value."})
	register(&Rule{ID: "R-OPTCLOSED", Floor: 4, Run: ruleOptClosed,
		Text: "The optimizer's rewrite set is closed: each pass names only the opcodes whose rewrites the other rules check (constant folding of + - * / == != √ over pushes, constant conditional jumps, NOP removal with jump retargeting, truncation after the first return).  A rewrite of any other opcode is not covered by any soundness argument here and is reported as undecided.  The opcodes a pass *writes* into the program are closed in the same way (NOP, true/false for a folded comparison, the final return of the truncation): an instruction of another kind emitted by the optimizer — a constant reference, say — is reported as undecided."})
	register(&Rule{ID: "R-LOCKPAIR", Floor: 4, Run: ruleLockPair,
		Text: "Every acquisition of a mutex in the library is released on every path to the function's exit (explicitly or by a deferred unlock registered right after it)."})
	register(&Rule{ID: "R-DIVCONTEXT", Floor: 5, Run: ruleDivContext,
		Text: "`/` is division after every token kind that ends an operand — `)`, an identifier, `]`, a decimal or an integer literal (the set confirmed on the pinned tree and frozen here)."})
	register(&Rule{ID: "R-FUNCFLAG", Floor: 1, Run: ruleFuncFlag,
		Text: "The parser's in-function flag is false again when a function definition has been parsed: the successful return of the function parselet is preceded by a store of false (or of a value read before the flag was set)."})
	register(&Rule{ID: "R-COMMENTCTX", Floor: 2, Run: ruleCommentCtx,
		Text: "Whitespace and comments are skipped before, and independently of, the decision whether `/` is division or a regexp: no condition that guards the comment skip reads the previous token."})
	register(&Rule{ID: "R-FOLDSAFE", Floor: 1, Run: ruleFoldSafe,
		Text: "Constant folding cannot panic inside Prepare (which has no recover): a division is folded only after its divisor — the later push — was tested against zero."})
	register(&Rule{ID: "R-USEBEFORECHECK", Floor: 1, Run: ruleUseBeforeCheck,
		Text: "A result returned together with an error is not stored into shared state (a map, a package variable, a field) before the error has been tested and found nil."})
}

// ---------------------------------------------------------------------------
// R-SWITCHDEFAULT

func ruleSwitchDefault(p *Program, r *Reporter) {
	a := needAnchors(p, r)
	if a == nil {
		return
	}
	n := 0
	// (the translation of a switch may sit in the compiler's case or in a
	// function of its own)
	for _, fn := range compilerFamily(p, a) {
		emits := map[ssa.Instruction]emitSite{}
		for _, e := range emitSites(p, a, fn) {
			emits[e.call] = e
		}
		// compile(X.Block) calls where X is a *ast.CaseExpression, classified by the
		// Default test that dominates them
		for _, b := range fn.Blocks {
			for _, ins := range b.Instrs {
				c, ok := staticCalleeIs(ins, a.compile)
				if !ok {
					continue
				}
				// argument derives from field Block of a CaseExpression; where it
				// was read (at the call, or earlier when the arms are first sorted
				// into lists) decides what is known about the arm
				isCaseBlock := false
				var readAt []*ssa.BasicBlock
				for _, o := range outerOrigins(c.Call.Args[1]) {
					if u, ok := o.(*ssa.UnOp); ok && u.Op == token.MUL {
						if k := fieldKey(u.X); k == "ast.CaseExpression.Block" {
							isCaseBlock = true
							readAt = append(readAt, u.Block())
						}
					}
				}
				if !isCaseBlock {
					continue
				}
				// dominated by the true / false edge of a load of X.Default ?
				classify := func(b *ssa.BasicBlock) (under, not bool) {
					for d := b; d.Idom() != nil; d = d.Idom() {
						iff, ok := terminator(d.Idom()).(*ssa.If)
						if !ok {
							continue
						}
						cond, neg := iff.Cond, false
						if u, ok := cond.(*ssa.UnOp); ok && u.Op == token.NOT {
							cond, neg = u.X, true
						}
						ld, ok := cond.(*ssa.UnOp)
						if !ok || ld.Op != token.MUL || fieldKey(ld.X) != "ast.CaseExpression.Default" {
							continue
						}
						onTrue := d.Idom().Succs[0] == d
						onFalse := d.Idom().Succs[1] == d
						if neg {
							onTrue, onFalse = onFalse, onTrue
						}
						if onTrue {
							under = true
						}
						if onFalse {
							not = true
						}
					}
					return
				}
				underDefault, notDefault := classify(b)
				if !underDefault && !notDefault && len(readAt) > 0 {
					underDefault, notDefault = true, true
					for _, rb := range readAt {
						u2, n2 := classify(rb)
						underDefault = underDefault && u2
						notDefault = notDefault && n2
					}
				}
				if !underDefault {
					// a block compiled without knowing it is not the default
					if !notDefault {
						n++
						r.Undecided(siteKey(p, fn, c.Pos(), "case block compiled"), p.Pos(c.Pos()), "a case block is compiled at a point where it is not known whether it is the default arm")
					}
					continue
				}
				n++
				key := siteKey(p, fn, c.Pos(), "default arm compiled after all case tests")
				reaches := token.NoPos
				walkForward(c, func(i2 ssa.Instruction) bool {
					if e, ok := emits[i2]; ok && e.op == "OpCase" {
						reaches = i2.Pos()
						return true
					}
					return false
				})
				if reaches.IsValid() {
					r.Fail(key, p.Pos(c.Pos()), "after the default block has been emitted the compiler can still emit a case comparison ("+p.Pos(reaches)+"): a default that is not written last runs whenever the cases above it fail, and a matching case below it runs as well")
				} else {
					r.OkNT(key, p.Pos(c.Pos()), "no case comparison is emitted after the default block")
				}
			}
		}
	}
	if n == 0 {
		r.Undecided("switch compilation", p.Pos(a.compile.Pos()), "no compilation of a case block found")
	}
}

// ---------------------------------------------------------------------------
// R-FOLDRESET

// foldCallback finds the constant-folding callback: its switch, the window
// variable and the opcode parameter.
func foldCallback(p *Program) (sw *ast.SwitchStmt, window types.Object, info *types.Info) {
	vmPk := p.ByPath[Mod+"/vm"]
	info = vmPk.TypesInfo
	for _, f := range vmPk.Syntax {
		ast.Inspect(f, func(n ast.Node) bool {
			body, _ := callbackBody(info, n)
			if body == nil || sw != nil {
				return true
			}
			for _, st := range body.List {
				s, ok := st.(*ast.SwitchStmt)
				if !ok || s.Tag == nil {
					continue
				}
				if tv, ok := info.Types[s.Tag]; !ok || !isOpcodeType(tv.Type) {
					continue
				}
				for _, cc := range s.Body.List {
					cl := cc.(*ast.CaseClause)
					for _, e := range cl.List {
						if opConstName(info, e) != "OpPush" {
							continue
						}
						for _, b := range cl.Body {
							if as, ok := b.(*ast.AssignStmt); ok && len(as.Lhs) == 1 && len(as.Rhs) == 1 {
								if ce, ok := as.Rhs[0].(*ast.CallExpr); ok {
									if id, ok := ce.Fun.(*ast.Ident); ok && id.Name == "append" {
										if o := lhsObject(info, as.Lhs[0]); o != nil {
											sw, window = s, o
										}
									}
								}
							}
						}
					}
				}
			}
			return true
		})
	}
	return
}

func ruleFoldReset(p *Program, r *Reporter) {
	sw, window, info := foldCallback(p)
	if sw == nil {
		r.Undecided("folding pass", "-", "cannot find the constant-folding callback")
		return
	}
	isReset := func(st ast.Stmt) bool {
		as, ok := st.(*ast.AssignStmt)
		if !ok || len(as.Lhs) != 1 || len(as.Rhs) != 1 {
			return false
		}
		if lhsObject(info, as.Lhs[0]) != window {
			return false
		}
		return info.Types[as.Rhs[0]].IsNil()
	}
	writesWindow := func(st ast.Stmt) bool {
		as, ok := st.(*ast.AssignStmt)
		if !ok {
			return false
		}
		for _, l := range as.Lhs {
			if lhsObject(info, l) == window {
				return true
			}
		}
		return false
	}
	// walk a statement list; reset = window known empty; report returns of
	// (true, nil) reached without a reset
	var bad []token.Pos
	var walk func(stmts []ast.Stmt, reset bool) (bool, bool) // (reset at end, terminated)
	walk = func(stmts []ast.Stmt, reset bool) (bool, bool) {
		for _, st := range stmts {
			switch s := st.(type) {
			case *ast.ReturnStmt:
				if len(s.Results) == 2 {
					if tv := info.Types[s.Results[0]]; tv.Value != nil && tv.Value.Kind() == constant.Bool && constant.BoolVal(tv.Value) {
						if !reset {
							bad = append(bad, s.Pos())
						}
					}
				}
				return reset, true
			case *ast.IfStmt:
				r1, t1 := walk(s.Body.List, reset)
				r2, t2 := reset, false
				if s.Else != nil {
					if b, ok := s.Else.(*ast.BlockStmt); ok {
						r2, t2 = walk(b.List, reset)
					} else {
						r2, t2 = walk([]ast.Stmt{s.Else}, reset)
					}
				}
				switch {
				case t1 && t2:
					return reset, true
				case t1:
					reset = r2
				case t2:
					reset = r1
				default:
					reset = r1 && r2
				}
			case *ast.BlockStmt:
				var t bool
				reset, t = walk(s.List, reset)
				if t {
					return reset, true
				}
			default:
				if isReset(st) {
					reset = true
				} else if writesWindow(st) {
					reset = false
				}
			}
		}
		return reset, false
	}
	// the same question asked of the flow graph: when it says that the window
	// is empty wherever the walk goes on, the text's shape does not matter
	ssaFold, ssaBad, ssaN := foldWindowSSA(p)
	ssaClean := ssaFold != nil && ssaN > 0 && len(ssaBad) == 0
	for _, cc := range sw.Body.List {
		cl := cc.(*ast.CaseClause)
		var ops []string
		keep := false
		for _, e := range cl.List {
			o := opConstName(info, e)
			ops = append(ops, o)
			if o == "OpPush" || o == "OpNop" {
				keep = true
			}
		}
		label := "default"
		if len(ops) > 0 {
			label = strings.Join(ops, ",")
		}
		if keep {
			continue
		}
		bad = nil
		endReset, terminated := walk(cl.Body, false)
		key := "folding pass, case " + label + ": window emptied before the walk continues"
		switch {
		case (len(bad) > 0 || (!terminated && !endReset)) && ssaClean:
			r.OkNT(key, p.Pos(cl.Pos()), fmt.Sprintf("on the flow graph of the callback: for each of the %d opcodes other than a push or a no-op, every path on which the walk goes on empties the window after the last append", ssaN))
		case len(bad) > 0:
			r.Fail(key, p.Pos(bad[0]), "the walk continues (return true) from this case with constants still in the window: after an operation that could not be folded the window no longer matches the run-time stack, so the next fold combines the wrong constants or removes a push that is still needed (stack underflow at run time)")
		case !terminated && !endReset:
			r.Fail(key, p.Pos(cl.Pos()), "the case can fall through to the end of the callback without emptying the window")
		default:
			r.OkNT(key, p.Pos(cl.Pos()), "every path either stops the walk after a rewrite or empties the window")
		}
	}
}

// ---------------------------------------------------------------------------
// R-COMMAOK

func ruleCommaOk(p *Program, r *Reporter) {
	for _, fn := range p.LibFns {
		for _, b := range fn.Blocks {
			for _, ins := range b.Instrs {
				var tuple ssa.Value
				what := ""
				switch x := ins.(type) {
				case *ssa.TypeAssert:
					if x.CommaOk {
						tuple, what = x, "assertion to "+typeStr(x.AssertedType)
					}
				case *ssa.Lookup:
					if x.CommaOk {
						tuple, what = x, "lookup in "+typeStr(x.X.Type())
					}
				}
				if tuple == nil {
					continue
				}
				var val, okv *ssa.Extract
				for _, ref := range liveRefs(tuple) {
					if ex, isEx := ref.(*ssa.Extract); isEx {
						if ex.Index == 0 {
							val = ex
						} else {
							okv = ex
						}
					}
				}
				if val == nil || len(liveRefs(val)) == 0 {
					continue // only the ok result is used
				}
				key := siteKey(p, fn, ins.Pos(), "value of comma-ok "+what+" used only when ok")
				if okv == nil {
					r.Fail(key, p.Pos(ins.Pos()), "the ok result is discarded and the value is used anyway")
					continue
				}
				// blocks where ok is known true
				okBlocks := func(b *ssa.BasicBlock) bool {
					for d := b; d != nil; d = d.Idom() {
						id := d.Idom()
						if id == nil {
							break
						}
						iff, isIf := terminator(id).(*ssa.If)
						if !isIf || len(d.Preds) != 1 {
							continue
						}
						cond, neg := iff.Cond, false
						if u, isNot := cond.(*ssa.UnOp); isNot && u.Op == token.NOT {
							cond, neg = u.X, true
						}
						if cond != ssa.Value(okv) {
							continue
						}
						onTrue := id.Succs[0] == d
						if neg {
							onTrue = !onTrue
						}
						if onTrue {
							return true
						}
					}
					return false
				}
				// the value may be returned together with ok (wrapper idiom) or stored
				// in a variable that is itself only read under ok; accept returns of
				// (val, ok) pairs
				bad := token.NoPos
				for _, ref := range liveRefs(val) {
					if ret, isRet := ref.(*ssa.Return); isRet {
						pair := false
						for _, res := range ret.Results {
							if res == ssa.Value(okv) {
								pair = true
							}
						}
						if pair {
							continue
						}
					}
					if ph, isPhi := ref.(*ssa.Phi); isPhi {
						// merged with other values: judge the edge's predecessor
						for i, e := range ph.Edges {
							if e == ssa.Value(val) && !okBlocks(ph.Block().Preds[i]) && ph.Block().Preds[i] != val.Block() {
								bad = ph.Pos()
							}
						}
						continue
					}
					if _, isDbg := ref.(*ssa.DebugRef); isDbg {
						continue
					}
					if st, isSt := ref.(*ssa.Store); isSt && st.Val == ssa.Value(val) {
						if al, isAl := st.Addr.(*ssa.Alloc); isAl {
							// copied into a local: its readers are the uses
							for _, r2 := range *al.Referrers() {
								if r2 == ssa.Instruction(st) {
									continue
								}
								if _, isDbg := r2.(*ssa.DebugRef); isDbg {
									continue
								}
								if !okBlocks(r2.Block()) {
									bad = r2.Pos()
									if !bad.IsValid() {
										bad = ins.Pos()
									}
								}
							}
							continue
						}
					}
					if !okBlocks(ref.Block()) {
						bad = ref.Pos()
						if !bad.IsValid() {
							bad = ins.Pos()
						}
					}
				}
				if bad.IsValid() {
					r.Fail(key, p.Pos(bad), "the value of a comma-ok "+what+" is used on a path where ok may be false (there it is the zero value: a nil pointer, an empty time, a missing map entry)")
				} else {
					r.OkNT(key, p.Pos(ins.Pos()), "every use is dominated by the ok branch")
				}
			}
		}
	}
}

// ---------------------------------------------------------------------------
// R-OPTCLOSED

// optimizerRewriteSets: per pass (identified by a characteristic opcode), the
// opcodes the pass may name.
var optimizerRewriteSets = map[string][]string{
	"fold":     {"OpPush", "OpSquareRoot", "OpNop", "OpEqual", "OpNotEqual", "OpMul", "OpAdd", "OpSub", "OpDiv"},
	"jumps":    {"OpJumpIfFalse", "OpTrue", "OpFalse"},
	"nops":     {"OpNop", "OpJump", "OpJumpIfFalse"},
	"deadcode": {"OpJumpIfFalse", "OpJump", "OpReturn"},
}

// optimizerWriteSets: per pass, the opcodes it may write into the program.
var optimizerWriteSets = map[string]map[string]bool{
	"fold":     {"OpNop": true, "OpTrue": true, "OpFalse": true},
	"jumps":    {"OpNop": true},
	"nops":     {},
	"deadcode": {"OpReturn": true},
}

// writesProgram: the function assigns to a program (code.Instructions) or to
// one of its bytes — it is (part of) a rewriting pass.
func writesProgram(info *types.Info, fd *ast.FuncDecl) bool {
	if fd == nil || fd.Body == nil {
		return false
	}
	writes := false
	ast.Inspect(fd.Body, func(n ast.Node) bool {
		if as, ok := n.(*ast.AssignStmt); ok {
			for _, l := range as.Lhs {
				var x ast.Expr = l
				if ie, ok := ast.Unparen(l).(*ast.IndexExpr); ok {
					x = ie.X
				}
				if tv, ok := info.Types[x]; ok && isNamed(tv.Type, "code", "Instructions") {
					writes = true
				}
			}
		}
		return true
	})
	return writes
}

func ruleOptClosed(p *Program, r *Reporter) {
	vmPk := p.ByPath[Mod+"/vm"]
	info := vmPk.TypesInfo
	a := needAnchors(p, r)
	if a == nil {
		return
	}
	runDecl := p.FuncDecl(a.vmRun)
	seen := map[string]bool{}
	// judge one function (or a function together with the functions only it
	// calls) as a rewriting pass
	judge := func(fd *ast.FuncDecl, rr *Reporter) {
		// only functions that write bytecode are rewriting passes
		writes := false
		ast.Inspect(fd.Body, func(n ast.Node) bool {
			if as, ok := n.(*ast.AssignStmt); ok {
				for _, l := range as.Lhs {
					// an element of a program (code.Instructions), or the program itself
					var x ast.Expr = l
					if ie, ok := ast.Unparen(l).(*ast.IndexExpr); ok {
						x = ie.X
					}
					if tv, ok := info.Types[x]; ok && isNamed(tv.Type, "code", "Instructions") {
						writes = true
					}
				}
			}
			return true
		})
		if !writes {
			return
		}
		named := map[string]bool{}
		var firstSw ast.Node
		ast.Inspect(fd.Body, func(n ast.Node) bool {
			switch x := n.(type) {
			case *ast.SwitchStmt:
				if x.Tag == nil {
					return true
				}
				if tv, ok := info.Types[x.Tag]; !ok || !isOpcodeType(tv.Type) {
					return true
				}
				if firstSw == nil {
					firstSw = x
				}
				for _, cc := range x.Body.List {
					for _, e := range cc.(*ast.CaseClause).List {
						if o := opConstName(info, e); o != "" {
							named[o] = true
						}
					}
				}
			case *ast.BinaryExpr:
				// the same decision written as a comparison
				if x.Op != token.EQL && x.Op != token.NEQ {
					return true
				}
				for _, e := range []ast.Expr{x.X, x.Y} {
					if o := opConstName(info, e); o != "" {
						named[o] = true
						if firstSw == nil {
							firstSw = x
						}
					}
				}
			}
			return true
		})
		if firstSw == nil {
			return
		}
		sw := firstSw
		pass := ""
		switch {
		case named["OpPush"]:
			pass = "fold"
		case named["OpReturn"]:
			pass = "deadcode"
		case named["OpNop"]:
			pass = "nops"
		case named["OpJumpIfFalse"]:
			pass = "jumps"
		}
		key := fmt.Sprintf("optimizer pass in %s names only checked opcodes", fd.Name.Name)
		if pass == "" {
			rr.Undecided(key, p.Pos(sw.Pos()), "a bytecode-rewriting function switches on opcodes "+setStr(named)+" and matches none of the known passes: its rewrites are covered by no soundness argument")
			return
		}
		seen[pass] = true
		allowed := map[string]bool{}
		for _, o := range optimizerRewriteSets[pass] {
			allowed[o] = true
		}
		var extra []string
		for o := range named {
			if !allowed[o] {
				extra = append(extra, o)
			}
		}
		sort.Strings(extra)
		// the opcodes the pass writes: byte(code.OpX) anywhere in it
		written := map[string]bool{}
		var firstWrite ast.Node
		ast.Inspect(fd.Body, func(n ast.Node) bool {
			ce, ok := n.(*ast.CallExpr)
			if !ok || len(ce.Args) != 1 {
				return true
			}
			if tv, ok := info.Types[ce.Fun]; !ok || !tv.IsType() {
				return true
			}
			if o := opConstName(info, ce.Args[0]); o != "" {
				written[o] = true
				if !optimizerWriteSets[pass][o] && firstWrite == nil {
					firstWrite = ce
				}
			}
			return true
		})
		wkey := fmt.Sprintf("optimizer pass in %s writes only checked opcodes", fd.Name.Name)
		if firstWrite != nil {
			var ws []string
			for o := range written {
				if !optimizerWriteSets[pass][o] {
					ws = append(ws, o)
				}
			}
			sort.Strings(ws)
			rr.Undecided(wkey, p.Pos(firstWrite.Pos()), "the "+pass+" pass writes "+strings.Join(ws, ", ")+" into the program: no rule here checks an instruction of that kind when it is the optimizer that emits it (its effect on the stack, the validity of its operand — a constant reference has to name a constant of the pool the compiler built, which Dump and the driver index too)")
		} else {
			rr.OkNT(wkey, p.Pos(sw.Pos()), pass+" pass writes: "+setStr(written))
		}
		if len(extra) > 0 {
			rr.Undecided(key, p.Pos(sw.Pos()), "the "+pass+" pass also rewrites around "+strings.Join(extra, ", ")+": no rule here checks that rewrite against the VM's semantics (is it an identity for values of every type and origin?), so optimizer transparency is undecided")
		} else {
			rr.OkNT(key, p.Pos(sw.Pos()), pass+" pass: "+setStr(named))
		}

	}
	var decls []*ast.FuncDecl
	declFn := map[*ast.FuncDecl]*ssa.Function{}
	for _, fn := range p.LibFns {
		if fd := p.FuncDecl(fn); fd != nil && fn.Parent() == nil {
			declFn[fd] = fn
		}
	}
	for _, f := range vmPk.Syntax {
		for _, d := range f.Decls {
			if fd, ok := d.(*ast.FuncDecl); ok && fd != runDecl && fd.Body != nil && writesProgram(info, fd) {
				decls = append(decls, fd)
			}
		}
	}
	// first each function by itself; a function that is not a pass of its own
	// (it names opcodes no known pass names) and that only one other rewriting
	// function calls is a part of that function: the two are read together
	trial := map[*ast.FuncDecl]*Reporter{}
	problem := map[*ast.FuncDecl]bool{}
	for _, fd := range decls {
		saved := map[string]bool{}
		for k, v := range seen {
			saved[k] = v
		}
		t := &Reporter{rule: r.rule, prog: r.prog}
		judge(fd, t)
		trial[fd] = t
		for _, o := range t.obls {
			if o.Verdict != OK && o.Verdict != Info {
				problem[fd] = true
			}
		}
		if problem[fd] {
			seen = saved
		}
	}
	partsOf := map[*ast.FuncDecl][]*ast.FuncDecl{}
	isPart := map[*ast.FuncDecl]bool{}
	var extraDecls []*ast.FuncDecl
	for _, fd := range decls {
		if !problem[fd] {
			continue
		}
		fn := declFn[fd]
		if fn == nil {
			continue
		}
		home, _ := p.Home(fn)
		for home != nil && home.Parent() != nil {
			home = home.Parent()
		}
		if home == nil || home == fn {
			continue
		}
		hd := p.FuncDecl(home)
		if hd == nil || hd == runDecl {
			continue
		}
		if !writesProgram(info, hd) {
			// a pass all of whose writing is done by its parts: read with them
			// (a function that itself decides on opcodes — the dispatching
			// half of a pass —, not a driver that merely calls the passes)
			if fnPkg(home) == nil || fnPkg(home).Pkg.Path() != Mod+"/vm" || !namesOpcodes(info, hd) {
				continue
			}
			known := false
			for _, d := range decls {
				if d == hd {
					known = true
				}
			}
			if !known {
				extraDecls = append(extraDecls, hd)
			}
		}
		partsOf[hd] = append(partsOf[hd], fd)
		isPart[fd] = true
	}
	for _, hd := range extraDecls {
		dup := false
		for _, d := range decls {
			if d == hd {
				dup = true
			}
		}
		if !dup {
			decls = append(decls, hd)
		}
	}
	replay := func(t *Reporter) {
		for _, o := range t.obls {
			r.add(o.Verdict, o.Key, o.Pos, o.Detail, o.Nontrivial)
		}
	}
	for _, fd := range decls {
		switch {
		case isPart[fd]:
			// reported with the function that calls it
		case len(partsOf[fd]) > 0:
			merged := &ast.BlockStmt{List: append([]ast.Stmt{}, fd.Body.List...)}
			for _, pd := range partsOf[fd] {
				merged.List = append(merged.List, pd.Body.List...)
			}
			cp := *fd
			cp.Body = merged
			judge(&cp, r)
		default:
			replay(trial[fd])
		}
	}
	for _, pass := range []string{"fold", "jumps", "nops", "deadcode"} {
		if !seen[pass] {
			r.Info("optimizer pass "+pass, "-", "not found (removed or restructured)")
		}
	}
}

// ---------------------------------------------------------------------------
// R-LOCKPAIR

func ruleLockPair(p *Program, r *Reporter) {
	isMutexRecv := func(v ssa.Value) (string, bool) {
		t := deref(v.Type())
		if !(isStdNamed(t, "sync", "Mutex") || isStdNamed(t, "sync", "RWMutex")) {
			return "", false
		}
		switch x := v.(type) {
		case *ssa.Global:
			return shortPkg(x.Pkg.Pkg.Path()) + "." + x.Name(), true
		case *ssa.FieldAddr:
			return fieldKey(x), true
		}
		return "mutex", true
	}
	lockOp := func(ins ssa.Instruction) (name string, lock, unlock bool) {
		cc := callOf(ins)
		if cc == nil || cc.StaticCallee() == nil || len(cc.Args) == 0 {
			return
		}
		nm, ok := isMutexRecv(cc.Args[0])
		if !ok {
			return
		}
		switch cc.StaticCallee().Name() {
		case "Lock", "RLock":
			return nm, true, false
		case "Unlock", "RUnlock":
			return nm, false, true
		}
		return
	}
	for _, fn := range p.LibFns {
		for _, b := range fn.Blocks {
			for _, ins := range b.Instrs {
				if _, isDefer := ins.(*ssa.Defer); isDefer {
					continue
				}
				nm, isLock, _ := lockOp(ins)
				if !isLock {
					continue
				}
				key := siteKey(p, fn, ins.Pos(), "lock of "+nm+" released on every path")
				// deferred unlock of the same mutex registered in this function after the lock
				deferred := false
				for _, bb := range fn.Blocks {
					for _, i2 := range bb.Instrs {
						if d, ok := i2.(*ssa.Defer); ok {
							if n2, _, un := lockOp(d); un && n2 == nm && dominatesInstr(ins, d) {
								deferred = true
							}
						}
					}
				}
				if deferred {
					r.OkNT(key, p.Pos(ins.Pos()), "deferred unlock")
					continue
				}
				leak := token.NoPos
				seen := map[*ssa.BasicBlock]bool{}
				var walk func(b *ssa.BasicBlock, i int)
				walk = func(b *ssa.BasicBlock, i int) {
					for ; i < len(b.Instrs); i++ {
						if n2, _, un := lockOp(b.Instrs[i]); un && n2 == nm {
							return
						}
						if ret, ok := b.Instrs[i].(*ssa.Return); ok {
							if !leak.IsValid() {
								leak = ret.Pos()
								if !leak.IsValid() {
									leak = fn.Pos()
								}
							}
							return
						}
					}
					for _, s := range b.Succs {
						if !seen[s] {
							seen[s] = true
							walk(s, 0)
						}
					}
				}
				walk(b, instrIndex(ins)+1)
				if leak.IsValid() {
					r.Fail(key, p.Pos(ins.Pos()), "there is a path from this lock to a return ("+p.Pos(leak)+") that never unlocks: the next acquisition — in any evaluator, for a package-level mutex — blocks for ever")
				} else {
					r.OkNT(key, p.Pos(ins.Pos()), "unlocked on every path")
				}
			}
		}
	}
}

// ---------------------------------------------------------------------------
// R-DIVCONTEXT

func ruleDivContext(p *Program, r *Reporter) {
	a := needAnchors(p, r)
	if a == nil {
		return
	}
	// token kinds compared with the previous token's type anywhere in the lexer's
	// token function or helpers it calls with the previous token
	found := map[string]bool{}
	for _, fn := range lexerFns(p) {
		usesPrev := false
		for _, b := range fn.Blocks {
			for _, ins := range b.Instrs {
				if fa, ok := ins.(*ssa.FieldAddr); ok && fieldKey(fa) == "lexer.Lexer.prevToken" {
					for _, ref := range liveRefs(fa) {
						if _, isStore := ref.(*ssa.Store); !isStore {
							usesPrev = true
						}
					}
				}
			}
		}
		if !usesPrev {
			continue
		}
		// v derives from prevToken.Type
		derivesFromPrev := func(v ssa.Value) bool {
			fromPrev := false
			var w func(v ssa.Value, d int)
			w = func(v ssa.Value, d int) {
				if v == nil || d > 5 {
					return
				}
				switch x := v.(type) {
				case *ssa.UnOp:
					w(x.X, d+1)
				case *ssa.FieldAddr:
					if fieldKey(x) == "lexer.Lexer.prevToken" {
						fromPrev = true
					}
					w(x.X, d+1)
				}
			}
			w(v, 0)
			return fromPrev
		}
		for _, b := range fn.Blocks {
			for _, ins := range b.Instrs {
				// the set kept as a table: a look-up of the previous token's type
				// in a package-level map that is never written; the kinds whose
				// entry is true
				if lk, ok := ins.(*ssa.Lookup); ok && derivesFromPrev(lk.Index) {
					if ld, ok := lk.X.(*ssa.UnOp); ok {
						if g, ok := ld.X.(*ssa.Global); ok {
							if keys, vals, info, ok := globalMapLiteral(p, g); ok {
								for i, k := range keys {
									if tv, has := info.Types[vals[i]]; has && tv.Value != nil && tv.Value.Kind() == constant.Bool && constant.BoolVal(tv.Value) && k.Kind() == constant.String {
										found[constant.StringVal(k)] = true
									}
								}
							}
						}
					}
				}
				bo, ok := ins.(*ssa.BinOp)
				if !ok || bo.Op != token.EQL {
					continue
				}
				k, ok := bo.Y.(*ssa.Const)
				if !ok || k.Value == nil || k.Value.Kind() != constant.String || !isNamed(k.Type(), "token", "Type") {
					continue
				}
				if derivesFromPrev(bo.X) {
					found[constant.StringVal(k.Value)] = true
				}
			}
		}
	}
	// switch-based variants: case constants of a switch over prevToken.Type
	lexPk := p.ByPath[Mod+"/lexer"]
	for _, f := range lexPk.Syntax {
		ast.Inspect(f, func(n ast.Node) bool {
			sw, ok := n.(*ast.SwitchStmt)
			if !ok || sw.Tag == nil || !strings.Contains(exprStr(sw.Tag), "prevToken") {
				return true
			}
			for _, cc := range sw.Body.List {
				for _, e := range cc.(*ast.CaseClause).List {
					if s, ok := constString(lexPk.TypesInfo, e); ok {
						found[s] = true
					}
				}
			}
			return true
		})
	}
	want := map[string]string{}
	for _, nm := range []string{"RPAREN", "IDENT", "RSQUARE", "FLOAT", "INT"} {
		if v, ok := tokenConst(p, nm); ok {
			want[nm] = v
		}
	}
	for nm, v := range want {
		key := "`/` after " + nm + " is division"
		if found[v] {
			r.Ok(key, p.Pos(a.lexNext.Pos()), "the previous-token test names this kind")
		} else {
			r.Fail(key, p.Pos(a.lexNext.Pos()), "the lexer's division-or-regexp decision no longer treats `/` after a "+nm+" token as division: `a"+map[string]string{"RSQUARE": "[0]", "RPAREN": "()", "IDENT": "", "FLOAT": "", "INT": ""}[nm]+" / 2` starts a regexp literal")
		}
	}
	divOnlyInContext(p, r)
}

// divOnlyInContext: the other direction.  Every token the lexer makes of a `/`
// that is not a regexp literal — the division operator and the `/=` operator —
// is made on a path that has passed a decision on the previous token.  Made
// without looking back, `/=` swallows the start of every regexp whose pattern
// begins with `=` (`x ~= /=yes$/`).
func divOnlyInContext(p *Program, r *Reporter) {
	kinds := map[string]string{}
	for _, nm := range []string{"SLASH", "SLASHEQUALS"} {
		if v, ok := tokenConst(p, nm); ok {
			kinds[v] = nm
		}
	}
	prevDependent := map[*ssa.Function]bool{}
	for _, fn := range lexerFns(p) {
		for _, b := range fn.Blocks {
			for _, ins := range b.Instrs {
				if fa, ok := ins.(*ssa.FieldAddr); ok && fieldKey(fa) == "lexer.Lexer.prevToken" {
					for _, ref := range liveRefs(fa) {
						if _, isStore := ref.(*ssa.Store); !isStore {
							prevDependent[fn] = true
						}
					}
				}
			}
		}
	}
	var fromPrev func(v ssa.Value, d int) bool
	fromPrev = func(v ssa.Value, d int) bool {
		if v == nil || d > 8 {
			return false
		}
		switch x := v.(type) {
		case *ssa.UnOp:
			return fromPrev(x.X, d+1)
		case *ssa.FieldAddr:
			return fieldKey(x) == "lexer.Lexer.prevToken" || fromPrev(x.X, d+1)
		case *ssa.BinOp:
			return fromPrev(x.X, d+1) || fromPrev(x.Y, d+1)
		case *ssa.Lookup:
			return fromPrev(x.Index, d+1)
		case *ssa.Extract:
			return fromPrev(x.Tuple, d+1)
		case *ssa.Phi:
			for _, e := range x.Edges {
				if fromPrev(e, d+1) {
					return true
				}
			}
		case *ssa.Call:
			for _, a := range x.Call.Args {
				if fromPrev(a, d+1) {
					return true
				}
			}
			if cal := x.Call.StaticCallee(); cal != nil && prevDependent[cal] && fnPkg(cal) != nil && fnPkg(cal).Pkg.Path() == Mod+"/lexer" {
				// a predicate of the lexer that reads the previous token itself
				if rs := sigResults(cal); len(rs) == 1 && isBoolType(rs[0]) {
					return true
				}
			}
		case *ssa.Convert:
			return fromPrev(x.X, d+1)
		case *ssa.ChangeType:
			return fromPrev(x.X, d+1)
		}
		return false
	}
	// decided: every path from fn's entry to block b crosses an edge out of a
	// branch on the previous token
	decided := func(fn *ssa.Function, at *ssa.BasicBlock) bool {
		seen := map[*ssa.BasicBlock]bool{}
		okAll := true
		var back func(b *ssa.BasicBlock)
		back = func(b *ssa.BasicBlock) {
			if seen[b] || !okAll {
				return
			}
			seen[b] = true
			if len(b.Preds) == 0 {
				okAll = false
				return
			}
			for _, pd := range b.Preds {
				if iff, ok := terminator(pd).(*ssa.If); ok && fromPrev(iff.Cond, 0) {
					continue
				}
				back(pd)
			}
		}
		back(at)
		return okAll
	}
	nth := map[string]int{}
	check := func(fn *ssa.Function, ins ssa.Instruction, what string) {
		nth[what]++
		key := fmt.Sprintf("token %s is made of a `/` only after a look at the previous token (%d)", what, nth[what])
		if decided(fn, ins.Block()) {
			r.OkNT(key, p.Pos(ins.Pos()), "every path to this place passes a branch on the previous token")
		} else {
			r.Fail(key, p.Pos(ins.Pos()), "the lexer makes a "+what+" token here on a path that never looked at the previous token: where a value cannot end — after an operator, a comma, an opening bracket — a `/` starts a regexp literal, and this path turns the beginning of such a literal into an operator (`x ~= /=yes$/` is no longer a match against the pattern `=yes$`)")
		}
	}
	found := 0
	for _, fn := range lexerFns(p) {
		for _, b := range fn.Blocks {
			for _, ins := range b.Instrs {
				for _, op := range ins.Operands(nil) {
					if op == nil || *op == nil {
						continue
					}
					k, ok := (*op).(*ssa.Const)
					if !ok || k.Value == nil || k.Value.Kind() != constant.String || !isNamed(k.Type(), "token", "Type") {
						continue
					}
					nm, isDiv := kinds[constant.StringVal(k.Value)]
					if !isDiv {
						continue
					}
					// comparisons with the kind are not makings of it
					if bo, ok := ins.(*ssa.BinOp); ok && (bo.Op == token.EQL || bo.Op == token.NEQ) {
						continue
					}
					found++
					check(fn, ins, nm)
				}
			}
		}
	}
	// kinds kept in a package-level table: the look-ups are the makings
	if sp := p.SSAPkg[Mod+"/lexer"]; sp != nil {
		for _, m := range sp.Members {
			g, ok := m.(*ssa.Global)
			if !ok {
				continue
			}
			keys, vals, info, ok := globalMapLiteral(p, g)
			if !ok {
				continue
			}
			holds := ""
			for i := range keys {
				if tv, has := info.Types[vals[i]]; has && tv.Value != nil && tv.Value.Kind() == constant.String {
					if nm, isDiv := kinds[constant.StringVal(tv.Value)]; isDiv && isNamed(tv.Type, "token", "Type") {
						holds = nm
					}
				}
			}
			if holds == "" {
				continue
			}
			for _, fn := range lexerFns(p) {
				for _, b := range fn.Blocks {
					for _, ins := range b.Instrs {
						if lk, ok := ins.(*ssa.Lookup); ok {
							if ld, ok := lk.X.(*ssa.UnOp); ok && ld.X == ssa.Value(g) {
								found++
								check(fn, ins, holds+" (from the table "+g.Name()+")")
							}
						}
					}
				}
			}
		}
	}
	// kinds built into a function value at package initialisation
	// (`var divide = operator(token.SLASH, follow{'=', token.SLASHEQUALS})`): the
	// uses of that variable are the makings
	if sp := p.SSAPkg[Mod+"/lexer"]; sp != nil && sp.Func("init") != nil {
		ini := sp.Func("init")
		var mentions func(v ssa.Value, depth int, seen map[ssa.Value]bool) string
		mentions = func(v ssa.Value, depth int, seen map[ssa.Value]bool) string {
			if v == nil || depth > 8 || seen[v] {
				return ""
			}
			seen[v] = true
			switch x := v.(type) {
			case *ssa.Const:
				if x.Value != nil && x.Value.Kind() == constant.String && isNamed(x.Type(), "token", "Type") {
					return kinds[constant.StringVal(x.Value)]
				}
			case *ssa.Call:
				for _, a := range x.Call.Args {
					if m := mentions(a, depth+1, seen); m != "" {
						return m
					}
				}
			case *ssa.MakeClosure:
				for _, b := range x.Bindings {
					if m := mentions(b, depth+1, seen); m != "" {
						return m
					}
				}
			case *ssa.Slice:
				return mentions(x.X, depth+1, seen)
			case *ssa.MakeInterface:
				return mentions(x.X, depth+1, seen)
			case *ssa.ChangeType:
				return mentions(x.X, depth+1, seen)
			case *ssa.Convert:
				return mentions(x.X, depth+1, seen)
			case *ssa.UnOp:
				return mentions(x.X, depth+1, seen)
			case *ssa.Alloc:
				var walkRefs func(a ssa.Value) string
				walkRefs = func(a ssa.Value) string {
					refs := a.Referrers()
					if refs == nil {
						return ""
					}
					for _, ref := range *refs {
						switch y := ref.(type) {
						case *ssa.Store:
							if y.Addr == a {
								if m := mentions(y.Val, depth+1, seen); m != "" {
									return m
								}
							}
						case *ssa.IndexAddr:
							if m := walkRefs(y); m != "" {
								return m
							}
						case *ssa.FieldAddr:
							if m := walkRefs(y); m != "" {
								return m
							}
						}
					}
					return ""
				}
				return walkRefs(x)
			}
			return ""
		}
		for _, b := range ini.Blocks {
			for _, ins := range b.Instrs {
				st, ok := ins.(*ssa.Store)
				if !ok {
					continue
				}
				g, ok := st.Addr.(*ssa.Global)
				if !ok {
					continue
				}
				if _, isMap := deref(g.Type()).Underlying().(*types.Map); isMap {
					continue // tables of kinds: handled above
				}
				nm := mentions(st.Val, 0, map[ssa.Value]bool{})
				if nm == "" {
					continue
				}
				for _, fn := range lexerFns(p) {
					for _, fb := range fn.Blocks {
						for _, fi := range fb.Instrs {
							if ld, ok := fi.(*ssa.UnOp); ok && ld.Op == token.MUL && ld.X == ssa.Value(g) {
								found++
								check(fn, fi, nm+" (through the variable "+g.Name()+")")
							}
						}
					}
				}
			}
		}
	}
	if found == 0 {
		r.Undecided("tokens made of a `/`", "-", "cannot find where the lexer makes the division and `/=` tokens")
	}
}

// ---------------------------------------------------------------------------
// R-FUNCFLAG

func ruleFuncFlag(p *Program, r *Reporter) {
	pr := resolveParserRoles(p, r)
	if pr == nil {
		return
	}
	var fn *ssa.Function
	var flag string
	for _, f := range pr.all {
		builds := false
		fl := ""
		for _, b := range f.Blocks {
			for _, ins := range b.Instrs {
				if buildsFunctionDefinition(ins) {
					builds = true
				}
				if st, ok := ins.(*ssa.Store); ok {
					if c, ok := st.Val.(*ssa.Const); ok && c.Value != nil && c.Value.Kind() == constant.Bool && constant.BoolVal(c.Value) {
						if k := fieldKey(st.Addr); strings.HasPrefix(k, "parser.Parser.") {
							fl = k
						}
					}
				}
			}
		}
		if builds && fl != "" && f.Parent() == nil {
			fn, flag = f, fl
		}
	}
	if fn == nil {
		r.Undecided("function parselet", "-", "no parse function builds *ast.FunctionDefinition and sets a parser flag")
		return
	}
	var setTrue *ssa.Store
	for _, b := range fn.Blocks {
		for _, ins := range b.Instrs {
			if st, ok := ins.(*ssa.Store); ok && fieldKey(st.Addr) == flag {
				if c, ok := st.Val.(*ssa.Const); ok && c.Value != nil && constant.BoolVal(c.Value) {
					setTrue = st
				}
			}
		}
	}
	// success returns: operand is not the nil constant
	good, n := true, 0
	why := ""
	nested := false // some successful return clears the flag instead of putting it back
	// deferred restore of a value read before the flag was set
	deferredOK := false
	for _, b := range fn.Blocks {
		for _, ins := range b.Instrs {
			d, ok := ins.(*ssa.Defer)
			if !ok {
				continue
			}
			var body *ssa.Function
			if mc, ok := d.Call.Value.(*ssa.MakeClosure); ok {
				body, _ = mc.Fn.(*ssa.Function)
			} else {
				body = d.Call.StaticCallee()
			}
			if body == nil {
				continue
			}
			for _, bb := range body.Blocks {
				for _, i2 := range bb.Instrs {
					st, ok := i2.(*ssa.Store)
					if !ok || fieldKey(st.Addr) != flag {
						continue
					}
					if c, ok := st.Val.(*ssa.Const); ok && c.Value != nil && !constant.BoolVal(c.Value) {
						deferredOK = true
						nested = true
					}
					// parameter of the deferred function: the argument at the defer
					// site must be a load of the flag made before it was set
					for i, prm := range body.Params {
						if st.Val == ssa.Value(prm) && i < len(d.Call.Args) {
							if ld, ok := d.Call.Args[i].(*ssa.UnOp); ok && fieldKey(ld.X) == flag && setTrue != nil && dominatesInstr(ld, setTrue) {
								deferredOK = true
							} else {
								why = "the deferred restore puts back a value of the flag that was read after the flag had been set: it always restores true"
							}
						}
					}
				}
			}
		}
	}
	for _, b := range fn.Blocks {
		ret, ok := terminator(b).(*ssa.Return)
		if !ok || (len(b.Preds) == 0 && b != fn.Blocks[0]) {
			continue
		}
		v := returnOperand(ret, 0)
		if v == nil || isNilConst(v) {
			continue
		}
		n++
		if deferredOK {
			continue
		}
		// walking back from the return: the last store to the flag puts back the
		// value it had before it was set (a load made before the store of true)
		cleared, constFalse := false, false
		walkBackward(ret, func(ins ssa.Instruction) bool {
			if st, ok := ins.(*ssa.Store); ok && fieldKey(st.Addr) == flag {
				if c, ok := st.Val.(*ssa.Const); ok && c.Value != nil {
					if !constant.BoolVal(c.Value) {
						constFalse = true
					}
					return true
				}
				for _, o := range origins(st.Val) {
					if ld, ok := o.(*ssa.UnOp); ok && fieldKey(ld.X) == flag && setTrue != nil && dominatesInstr(ld, setTrue) {
						cleared = true
					}
				}
				return true
			}
			return false
		}, nil)
		if constFalse {
			nested = true
		}
		if !cleared && !constFalse {
			good = false
			if why == "" {
				why = "a successful return of the function parselet leaves the in-function flag set"
			}
		}
	}
	r.Check(good && n > 0, "the in-function flag is cleared after a function definition", p.Pos(fn.Pos()), fmt.Sprintf("%d successful return(s), each after the flag was put back", n), why+": once any function has been defined, `local` is accepted everywhere in the rest of the script")
	// ... and put back, not cleared: a definition may stand inside another
	// function, which goes on after it
	if good && n > 0 {
		if nested {
			r.Fail("the in-function flag gets its previous value back after a function definition", p.Pos(fn.Pos()), "the function parselet ends by storing false into the in-function flag: when the definition stands inside another function, the rest of that function is parsed as if it were outside any — a `local` after a nested definition is rejected (`function f() { function g() { return 1; } local x; … }`)")
		} else {
			r.OkNT("the in-function flag gets its previous value back after a function definition", p.Pos(fn.Pos()), "every successful return stores the value the flag had before it was set")
		}
	}
}

// ---------------------------------------------------------------------------
// R-COMMENTCTX

func ruleCommentCtx(p *Program, r *Reporter) {
	a := needAnchors(p, r)
	if a == nil {
		return
	}
	fn := a.lexNext
	// the skip helpers: lexer functions with no results, no parameters, that loop
	// calling the advance function (skipWhitespace, skipComment)
	adv := lexAdvance(p)
	var skips []*ssa.Function
	for _, f := range lexerFns(p) {
		if f.Parent() != nil || f == fn || f == adv || len(sigParams(f)) != 0 || len(sigResults(f)) != 0 {
			continue
		}
		for _, b := range f.Blocks {
			for _, ins := range b.Instrs {
				if cc := callOf(ins); cc != nil && cc.StaticCallee() == adv {
					skips = append(skips, f)
				}
			}
		}
	}
	seen := map[*ssa.Function]bool{}
	n := 0
	// the places where the token function skips: calls of the skip helpers,
	// and loops of its own that only advance (the helpers written out in place)
	type skipSite struct {
		b    *ssa.BasicBlock
		pos  token.Pos
		name string
	}
	var sites []skipSite
	for _, b := range fn.Blocks {
		for _, ins := range b.Instrs {
			cc := callOf(ins)
			if cc == nil || cc.StaticCallee() == nil {
				continue
			}
			isSkip := false
			for _, s := range skips {
				if s == cc.StaticCallee() {
					isSkip = true
				}
			}
			if !isSkip || seen[cc.StaticCallee()] {
				continue
			}
			seen[cc.StaticCallee()] = true
			sites = append(sites, skipSite{b, ins.Pos(), cc.StaticCallee().Name()})
		}
	}
	if adv != nil {
		for _, lp := range charLoops(p, adv) {
			if lp.fn == fn && lp.onlyAdvances {
				sites = append(sites, skipSite{lp.h, firstPos(lp.h), fmt.Sprintf("the loop %d of the token function", lp.no)})
			}
		}
	}
	for _, site := range sites {
		b := site.b
		{
			ins := posInstr{site.pos}
			n++
			key := "skipping by " + site.name + " does not depend on the previous token"
			dep := token.NoPos
			depends := false
			for d := b; d.Idom() != nil; d = d.Idom() {
				iff, ok := terminator(d.Idom()).(*ssa.If)
				if !ok {
					continue
				}
				readsPrev := false
				var w func(v ssa.Value, depth int)
				w = func(v ssa.Value, depth int) {
					if v == nil || depth > 6 {
						return
					}
					switch x := v.(type) {
					case *ssa.UnOp:
						w(x.X, depth+1)
					case *ssa.BinOp:
						w(x.X, depth+1)
						w(x.Y, depth+1)
					case *ssa.FieldAddr:
						if fieldKey(x) == "lexer.Lexer.prevToken" {
							readsPrev = true
						}
						w(x.X, depth+1)
					case *ssa.Phi:
						for _, e := range x.Edges {
							w(e, depth+1)
						}
					case *ssa.Call:
						// helper deciding on the previous token
						if c := x.Call.StaticCallee(); c != nil && fnPkg(c) != nil && fnPkg(c).Pkg.Path() == Mod+"/lexer" {
							for _, bb := range c.Blocks {
								for _, i2 := range bb.Instrs {
									if fa, ok := i2.(*ssa.FieldAddr); ok && fieldKey(fa) == "lexer.Lexer.prevToken" {
										readsPrev = true
									}
								}
							}
						}
					}
				}
				w(iff.Cond, 0)
				if readsPrev {
					depends = true
					dep = firstPos(d.Idom())
				}
			}
			if depends {
				r.Fail(key, p.Pos(ins.Pos()), "whether a comment/whitespace is skipped here depends on the previous token ("+p.Pos(dep)+"): a `//` comment after an operand is lexed as a division followed by a regexp, so inserting a comment changes the token sequence")
			} else {
				r.OkNT(key, p.Pos(ins.Pos()), "no dominating condition reads the previous token")
			}
		}
	}
	if n < 2 {
		r.Undecided("skip helpers", p.Pos(fn.Pos()), fmt.Sprintf("found %d calls of whitespace/comment skippers in the token function; expected both", n))
	}
}

// ---------------------------------------------------------------------------
// R-USEBEFORECHECK

func ruleUseBeforeCheck(p *Program, r *Reporter) {
	for _, fn := range p.LibFns {
		for _, b := range fn.Blocks {
			for _, ins := range b.Instrs {
				call, ok := ins.(*ssa.Call)
				if !ok {
					continue
				}
				tp, ok := call.Type().(*types.Tuple)
				if !ok || tp.Len() != 2 || !isErrorType(tp.At(1).Type()) {
					continue
				}
				var val, errv *ssa.Extract
				for _, ref := range liveRefs(call) {
					if ex, ok := ref.(*ssa.Extract); ok {
						if ex.Index == 0 {
							val = ex
						} else {
							errv = ex
						}
					}
				}
				if val == nil || errv == nil {
					continue
				}
				// value may flow through a local φ/variable before being stored
				sinks := []ssa.Instruction{}
				var collect func(v ssa.Value, d int)
				seenV := map[ssa.Value]bool{}
				collect = func(v ssa.Value, d int) {
					if seenV[v] || d > 4 {
						return
					}
					seenV[v] = true
					for _, ref := range liveRefs(v) {
						switch x := ref.(type) {
						case *ssa.MapUpdate:
							if x.Value == v {
								sinks = append(sinks, x)
							}
						case *ssa.Store:
							if x.Val != v {
								continue
							}
							switch ad := x.Addr.(type) {
							case *ssa.Global:
								sinks = append(sinks, x)
							case *ssa.FieldAddr:
								if _, isAlloc := ad.X.(*ssa.Alloc); !isAlloc {
									sinks = append(sinks, x)
								}
							case *ssa.Alloc:
								// spilled local: follow its loads
								for _, r2 := range *ad.Referrers() {
									if ld, ok := r2.(*ssa.UnOp); ok && ld.Op == token.MUL {
										collect(ld, d+1)
									}
								}
							}
						case *ssa.Phi:
							collect(x, d+1)
						}
					}
				}
				collect(val, 0)
				if len(sinks) == 0 {
					continue
				}
				// blocks where err is known nil
				errNil := func(at ssa.Instruction) bool {
					for _, ref := range liveRefs(errv) {
						bo, ok := ref.(*ssa.BinOp)
						if !ok || (bo.Op != token.EQL && bo.Op != token.NEQ) || !(isNilConst(bo.X) || isNilConst(bo.Y)) {
							continue
						}
						for _, r2 := range liveRefs(bo) {
							iff, ok := r2.(*ssa.If)
							if !ok {
								continue
							}
							okSucc := iff.Block().Succs[0]
							errSucc := iff.Block().Succs[1]
							if bo.Op == token.NEQ {
								okSucc, errSucc = errSucc, okSucc
							}
							// either dominated by the nil edge, or the error edge cannot
							// reach `at` (it returns)
							if len(okSucc.Preds) == 1 && (okSucc == at.Block() || okSucc.Dominates(at.Block())) {
								return true
							}
							if iff.Block() != at.Block() && iff.Block().Dominates(at.Block()) && !blockReaches(errSucc, at.Block(), iff.Block()) {
								return true
							}
						}
					}
					return false
				}
				for _, s := range sinks {
					key := siteKey(p, fn, s.Pos(), "result of "+calleeFullName(&call.Call)+" stored only after its error was checked")
					if errNil(s) {
						r.OkNT(key, p.Pos(s.Pos()), "the store is only reached when the error is nil")
					} else {
						r.Fail(key, p.Pos(s.Pos()), "the result is stored into shared state on a path where the accompanying error may be non-nil: a later reader finds an entry that looks valid (for the regexp cache: a nil *Regexp, dereferenced by the next match or replace with the same pattern)")
					}
				}
			}
		}
	}
}

// blockReaches: can `from` reach `to` without passing through `avoid`?
func blockReaches(from, to, avoid *ssa.BasicBlock) bool {
	seen := map[*ssa.BasicBlock]bool{}
	var w func(b *ssa.BasicBlock) bool
	w = func(b *ssa.BasicBlock) bool {
		if b == to {
			return true
		}
		if seen[b] || b == avoid {
			return false
		}
		seen[b] = true
		for _, s := range b.Succs {
			if w(s) {
				return true
			}
		}
		return false
	}
	return w(from)
}

// ruleFoldSafe: the part of R-FOLDAGREE that bears on crashes.
func ruleFoldSafe(p *Program, r *Reporter) {
	tmp := &Reporter{rule: r.rule, prog: p}
	ruleFoldAgree(p, tmp)
	for _, o := range tmp.obls {
		if strings.Contains(o.Key, "zero divisor") || o.Verdict == Undecided && strings.Contains(o.Key, "folding pass") {
			r.add(o.Verdict, o.Key, o.Pos, o.Detail, o.Nontrivial)
		}
	}
}

// foldWindowSSA: the constant folder's window judged on the flow graph of the
// walker callback, whatever shape its text has.  The callback is the visitor
// of package vm that appends to a captured list (or a list in its receiver)
// where the opcode is a push.  For every other opcode (a no-op keeps the
// window too) every path on which the walk goes on — the callback returns
// true, or something not known to be false — must have emptied the window
// after the last append.  Returns the callback, the opcodes for which some
// path keeps the window (with a position), and how many opcodes were judged.
func foldWindowSSA(p *Program) (*ssa.Function, map[string]token.Pos, int) {
	oc := p.Opcodes()
	var fold *ssa.Function
	var window ssa.Value
	sameAddr := func(a, b ssa.Value) bool {
		if a == b {
			return true
		}
		fa, ok1 := a.(*ssa.FieldAddr)
		fb, ok2 := b.(*ssa.FieldAddr)
		return ok1 && ok2 && fa.X == fb.X && fa.Field == fb.Field
	}
	for _, fn := range p.LibFns {
		if !isWalkerCallback(fn) || fnPkg(fn).Pkg.Path() != Mod+"/vm" || len(fn.Params) < 3 {
			continue
		}
		opc := fn.Params[len(fn.Params)-2]
		for _, b := range fn.Blocks {
			for _, ins := range b.Instrs {
				st, ok := ins.(*ssa.Store)
				if !ok {
					continue
				}
				if _, isApp := isBuiltinCall(st.Val, "append"); !isApp {
					continue
				}
				_, isFree := st.Addr.(*ssa.FreeVar)
				_, isField := st.Addr.(*ssa.FieldAddr)
				if !isFree && !isField {
					continue
				}
				set := opcodeSetsAt(p, fn, b)[ssa.Value(opc)]
				if len(set) == 1 && set["OpPush"] {
					fold, window = fn, st.Addr
				}
			}
		}
	}
	if fold == nil {
		return nil, nil, 0
	}
	opc := ssa.Value(fold.Params[len(fold.Params)-2])
	bad := map[string]token.Pos{}
	n := 0
	for _, name := range oc.names {
		if name == "OpPush" || name == "OpNop" {
			continue
		}
		n++
		kv := constant.MakeInt64(oc.byName[name])
		type st struct {
			b     *ssa.BasicBlock
			reset bool
		}
		seen := map[st]bool{}
		var walk func(b *ssa.BasicBlock, reset bool)
		walk = func(b *ssa.BasicBlock, reset bool) {
			if seen[st{b, reset}] {
				return
			}
			seen[st{b, reset}] = true
			for _, ins := range b.Instrs {
				switch x := ins.(type) {
				case *ssa.Store:
					if sameAddr(x.Addr, window) {
						reset = isFreshEmpty(x.Val) || isNilConst(x.Val)
					}
				case *ssa.Return:
					goesOn := true
					if len(x.Results) > 0 {
						if c, ok := returnOperand(x, 0).(*ssa.Const); ok && c.Value != nil && c.Value.Kind() == constant.Bool {
							goesOn = constant.BoolVal(c.Value)
						}
					}
					if goesOn && !reset {
						if _, have := bad[name]; !have {
							pos := x.Pos()
							if !pos.IsValid() {
								pos = fold.Pos()
							}
							bad[name] = pos
						}
					}
					return
				case *ssa.If:
					if bo, ok := x.Cond.(*ssa.BinOp); ok && (bo.Op == token.EQL || bo.Op == token.NEQ) {
						var other ssa.Value
						if stripConvSSA(bo.X) == opc {
							other = bo.Y
						} else if stripConvSSA(bo.Y) == opc {
							other = bo.X
						}
						if c, ok := stripConvSSA(other).(*ssa.Const); ok && other != nil && c.Value != nil && c.Value.Kind() == constant.Int {
							eq := constant.Compare(c.Value, token.EQL, kv)
							if eq == (bo.Op == token.EQL) {
								walk(b.Succs[0], reset)
							} else {
								walk(b.Succs[1], reset)
							}
							return
						}
					}
				}
			}
			for _, sc := range b.Succs {
				walk(sc, reset)
			}
		}
		if len(fold.Blocks) > 0 {
			walk(fold.Blocks[0], false)
		}
	}
	return fold, bad, n
}

// namesOpcodes: the function's text switches on an opcode or compares one
// with an opcode constant.
func namesOpcodes(info *types.Info, fd *ast.FuncDecl) bool {
	found := false
	ast.Inspect(fd.Body, func(n ast.Node) bool {
		switch x := n.(type) {
		case *ast.SwitchStmt:
			if x.Tag != nil {
				if tv, ok := info.Types[x.Tag]; ok && isOpcodeType(tv.Type) {
					found = true
				}
			}
		case *ast.BinaryExpr:
			if x.Op == token.EQL || x.Op == token.NEQ {
				if opConstName(info, x.X) != "" || opConstName(info, x.Y) != "" {
					found = true
				}
			}
		}
		return !found
	})
	return found
}

// posInstr: a position standing in for an instruction in a report.
type posInstr struct{ pos token.Pos }

func (x posInstr) Pos() token.Pos { return x.pos }
