package main

// Stack-discipline rules (C18, C02): value-less constructs in operand
// positions, and loop state kept on the operand stack.

import (
	"fmt"
	"go/token"
	"go/types"
	"sort"
	"strings"

	"golang.org/x/tools/go/ssa"
)

func init() {
	register(&Rule{ID: "R-VALUEPOS", Floor: 2, Run: ruleValuePos,
		Text: "A construct whose translation leaves no value on the stack (it ends in an instruction that only pops: store, declare-local, increment, decrement) is rejected by Prepare wherever another construct will pop its value — as an operand, an element, an argument, a condition, the value of an assignment or of return. Decided as a necessary condition: some code of the parser or compiler must test a child for each such construct and fail; if nothing ever does, `x = y = 3` is accepted and underflows the stack at run time."})
	register(&Rule{ID: "R-LOOPSTACK", Floor: 1, Run: ruleLoopStack,
		Text: "A loop that keeps its iteration state on the operand stack (foreach: the iterable stays on top between iterations) cannot be disturbed by its body: either every statement's translation discards what it pushed, or the loop does not find its state by position on the stack."})
}

// pushingOpcodes: opcodes in whose interpreter case something is pushed
// (directly or through a VM method called from the case).
func pushingOpcodes(p *Program, a *anchors) map[string]bool {
	out := map[string]bool{}
	pushes := map[*ssa.Function]bool{}
	isPush := func(c *ssa.CallCommon) bool {
		cal := c.StaticCallee()
		return cal != nil && cal.Name() == "Push" && recvNamed(cal, "stack", "Stack")
	}
	for changed := true; changed; {
		changed = false
		for _, fn := range p.LibFns {
			if pushes[fn] || fnPkg(fn).Pkg.Path() != Mod+"/vm" || fn == a.vmRun {
				continue
			}
			for _, b := range fn.Blocks {
				for _, ins := range b.Instrs {
					cc := callOf(ins)
					if cc == nil {
						continue
					}
					if isPush(cc) || (cc.StaticCallee() != nil && pushes[cc.StaticCallee()]) {
						pushes[fn] = true
						changed = true
					}
				}
			}
		}
	}
	for _, b := range a.vmRun.Blocks {
		for _, ins := range b.Instrs {
			cc := callOf(ins)
			if cc == nil {
				continue
			}
			if isPush(cc) || (cc.StaticCallee() != nil && pushes[cc.StaticCallee()]) {
				label := outerCaseN(p, a.vmRun, ins.Pos(), 0)
				for _, part := range strings.Split(strings.TrimPrefix(label, "case "), ",") {
					part = strings.TrimSpace(part)
					if i := strings.LastIndex(part, "."); i >= 0 {
						part = part[i+1:]
					}
					if strings.HasPrefix(part, "Op") {
						out[part] = true
					}
				}
			}
		}
	}
	return out
}

func ruleValuePos(p *Program, r *Reporter) {
	a := needAnchors(p, r)
	if a == nil {
		return
	}
	oc := p.Opcodes()
	pushing := pushingOpcodes(p, a)
	if len(pushing) < 10 {
		r.Undecided("pushing opcodes", "-", "cannot read which interpreter cases push a value")
		return
	}
	fn := a.compile
	// value-less constructs: a success return of the case is reached with a
	// non-pushing, non-jump opcode emitted last
	last := map[string]map[string]bool{} // case label → last opcodes
	for _, b := range fn.Blocks {
		for _, ins := range b.Instrs {
			c, ok := staticCalleeIs(ins, a.emit)
			if !ok {
				continue
			}
			name := oc.ssaName(c.Call.Args[1])
			if name == "" {
				continue
			}
			// is this emit the last one before a success return of the function?
			isLast := true
			walkForward(c, func(i2 ssa.Instruction) bool {
				if i2 == ssa.Instruction(c) {
					return false
				}
				if c2, ok := i2.(*ssa.Call); ok {
					if c2.Call.StaticCallee() == a.emit || c2.Call.StaticCallee() == fn {
						isLast = false
						return true
					}
				}
				return false
			})
			if !isLast {
				continue
			}
			label := strings.TrimPrefix(outerCase(p, fn, c.Pos()), "case ")
			if last[label] == nil {
				last[label] = map[string]bool{}
			}
			last[label][name] = true
		}
	}
	skip := map[string]bool{"OpJump": true, "OpJumpIfFalse": true, "OpReturn": true, "OpPlaceholder": true, "OpNop": true}
	var valueless []string
	ends := map[string][]string{}
	for label, ops := range last {
		for o := range ops {
			if !pushing[o] && !skip[o] {
				ends[label] = append(ends[label], o)
			}
		}
		if len(ends[label]) > 0 {
			sort.Strings(ends[label])
			valueless = append(valueless, label)
		}
	}
	sort.Strings(valueless)
	if len(valueless) == 0 {
		r.OkNT("no construct's translation ends in a popping-only instruction", p.Pos(fn.Pos()), "")
		return
	}
	for _, label := range valueless {
		key := "value-less construct " + label + " is rejected where a value is needed"
		if label == "*ast.LocalVariable" {
			// `local x` is a statement keyword: the parser only produces it at statement level
			if site := rejectionSite(p, a, label); site != "" {
				r.OkNT(key, site, "tested and rejected")
			} else {
				r.Info(key, "-", "a declaration statement; the parser produces it at statement level only")
			}
			continue
		}
		if site := rejectionSite(p, a, label); site != "" {
			r.OkNT(key, site, "a child is tested for this construct and the test can fail Prepare (necessary condition only: that every value position is covered is not decided)")
			continue
		}
		if label == "*ast.InfixExpression" {
			label = "*ast.InfixExpression (compound assignment: += -= *= /=)"
		}
		r.Fail(key, p.Pos(fn.Pos()), fmt.Sprintf("the translation of %s ends in %s, which leaves nothing on the stack, and neither the parser nor the compiler ever tests a child node for this construct: it is accepted as an operand, element, argument, condition or assigned value, and the consumer's pop underflows the stack at run time — an accepted script fails with the machine's own \"Pop from an empty stack\"", label, strings.Join(ends[label], "/")))
	}
}

// rejectionSite: a type test of some value other than compile's own node
// parameter against the construct's type, in the parser or the compiler.
func rejectionSite(p *Program, a *anchors, label string) string {
	want := strings.TrimPrefix(label, "*ast.")
	var fns []*ssa.Function
	fns = append(fns, parserFns(p)...)
	for f := range p.Reachable(a.compile) {
		if fnPkg(f) != nil && fnPkg(f).Pkg.Path() == Mod {
			fns = append(fns, f)
		}
	}
	for _, fn := range fns {
		for _, b := range fn.Blocks {
			for _, ins := range b.Instrs {
				ta, ok := ins.(*ssa.TypeAssert)
				if !ok {
					continue
				}
				pt, ok := ta.AssertedType.(*types.Pointer)
				if !ok || !isNamed(pt.Elem(), "ast", want) {
					continue
				}
				if fn == a.compile && len(fn.Params) >= 2 && ta.X == ssa.Value(fn.Params[1]) {
					continue // the main dispatch
				}
				// a hit must fail: the branch taken when the test succeeds only
				// leads to failing returns
				if !ta.CommaOk {
					continue
				}
				rejects := false
				for _, ref := range *ta.Referrers() {
					ex, ok := ref.(*ssa.Extract)
					if !ok || ex.Index != 1 {
						continue
					}
					for _, r2 := range *ex.Referrers() {
						if iff, ok := r2.(*ssa.If); ok {
							hit := iff.Block().Succs[0]
							if allReturnsFail(hit) || allReturnsNil(hit) {
								rejects = true
							}
						}
					}
				}
				if !rejects {
					continue
				}
				return p.Pos(ta.Pos()) + " in " + p.FnName(fn)
			}
		}
	}
	return ""
}

func ruleLoopStack(p *Program, r *Reporter) {
	a := needAnchors(p, r)
	if a == nil {
		return
	}
	oc := p.Opcodes()
	key := "the foreach body cannot bury the iteration state"
	// (1) does the iteration step find its state by popping?
	popsInNext := 0
	for _, b := range a.vmRun.Blocks {
		for _, ins := range b.Instrs {
			cc := callOf(ins)
			if cc == nil || cc.StaticCallee() == nil || cc.StaticCallee().Name() != "Pop" || !recvNamed(cc.StaticCallee(), "stack", "Stack") {
				continue
			}
			if strings.Contains(outerCase(p, a.vmRun, ins.Pos()), "OpIterationNext") {
				popsInNext++
			}
		}
	}
	if popsInNext == 0 {
		r.OkNT(key, p.Pos(a.vmRun.Pos()), "the iteration step does not take its state from the operand stack")
		return
	}
	// (2) does an expression statement discard what its expression pushed?
	fn := a.compile
	emitsAfter := false
	found := false
	for _, b := range fn.Blocks {
		for _, ins := range b.Instrs {
			c, ok := staticCalleeIs(ins, a.emit)
			if !ok {
				continue
			}
			if strings.Contains(outerCase(p, fn, c.Pos()), "*ast.ExpressionStatement") {
				emitsAfter = true
				_ = oc
			}
		}
	}
	for _, b := range fn.Blocks {
		for _, ins := range b.Instrs {
			if c, ok := staticCalleeIs(ins, fn); ok && strings.Contains(outerCase(p, fn, c.Pos()), "*ast.ExpressionStatement") {
				found = true
			}
		}
	}
	if !found {
		r.Undecided(key, p.Pos(fn.Pos()), "cannot find the compiler case for expression statements")
		return
	}
	if emitsAfter {
		r.OkNT(key, p.Pos(fn.Pos()), "an expression statement emits an instruction after its expression (its value is discarded)")
		return
	}
	r.Fail(key, p.Pos(fn.Pos()), fmt.Sprintf("the iteration step pops its state (%d pops) from the top of the operand stack, and an expression statement is translated as its expression alone — whatever value it pushes stays on the stack: inside a foreach body a value-producing statement (`len(\"a\");`, a call of a user function whose result is not used, `x;`) buries the iterable, the next step pops that value instead and the run fails with \"… doesn't implement the Iterable interface\" after the first iteration", popsInNext))
}

// ---------------------------------------------------------------------------
// R-TEXTOFNODE

func init() {
	register(&Rule{ID: "R-TEXTOFNODE", Floor: 3, Run: ruleTextOfNode,
		Text: "Wherever the parser or the compiler uses the printed form of a syntax node in place of the node — the name of the function that is called, the name after a '.', the name that is assigned — the node is an identifier: its static type is *ast.Identifier, or a type test for it has succeeded on every path to the use. Any other expression in such a place would be accepted by Prepare and dropped without being compiled or checked."})
}

func ruleTextOfNode(p *Program, r *Reporter) {
	a := needAnchors(p, r)
	if a == nil {
		return
	}
	var fns []*ssa.Function
	fns = append(fns, parserFns(p)...)
	for f := range p.Reachable(a.compile) {
		if fnPkg(f) != nil && fnPkg(f).Pkg.Path() == Mod {
			fns = append(fns, f)
		}
	}
	sort.Slice(fns, func(i, j int) bool { return p.FnName(fns[i]) < p.FnName(fns[j]) })
	seenFn := map[*ssa.Function]bool{}
	for _, fn := range fns {
		if seenFn[fn] {
			continue
		}
		seenFn[fn] = true
		nth := map[string]int{}
		for _, b := range fn.Blocks {
			for _, ins := range b.Instrs {
				c, ok := ins.(*ssa.Call)
				if !ok {
					continue
				}
				var recv ssa.Value
				if c.Call.IsInvoke() && c.Call.Method.Name() == "String" {
					recv = c.Call.Value
				} else if cal := c.Call.StaticCallee(); cal != nil && cal.Name() == "String" && cal.Signature.Recv() != nil && len(c.Call.Args) == 1 {
					recv = c.Call.Args[0]
				}
				if recv == nil || !isASTish(recv.Type()) {
					continue
				}
				// only uses whose text flows into a node or a constant: everything but error messages
				if onlyInMessages(c) {
					continue
				}
				label := outerCase(p, fn, c.Pos())
				nth[label]++
				key := fmt.Sprintf("%s/%s/printed form %d stands for an identifier", p.FnName(fn), label, nth[label])
				if isNamed(deref(recv.Type()), "ast", "Identifier") {
					r.OkNT(key, p.Pos(c.Pos()), "static type *ast.Identifier")
					continue
				}
				if identifierTested(recv, c) {
					r.OkNT(key, p.Pos(c.Pos()), "dominated by a successful type test for *ast.Identifier")
					continue
				}
				r.Fail(key, p.Pos(c.Pos()), "the printed form of an arbitrary expression is used in place of the expression, which is never compiled: `(3 += 1)(2)` calls a function named \"(3 += 1)\", `x = a.(3 += 1)` indexes with that text — the invalid fragment inside is accepted by Prepare and silently dropped")
			}
		}
	}
}

// onlyInMessages: every use of the text is an argument of a formatting call
// whose result is an error or an entry of the parser's error list.
func onlyInMessages(c *ssa.Call) bool {
	refs := c.Referrers()
	if refs == nil || len(*refs) == 0 {
		return true
	}
	for _, ref := range *refs {
		switch x := ref.(type) {
		case *ssa.MakeInterface:
			for _, r2 := range *x.Referrers() {
				if st, ok := r2.(*ssa.Store); ok {
					// element of the varargs slice of Sprintf / Errorf
					if _, isIdx := st.Addr.(*ssa.IndexAddr); isIdx {
						continue
					}
				}
				return false
			}
		case *ssa.DebugRef:
		default:
			return false
		}
	}
	return true
}

// identifierTested: a comma-ok assertion of the same value (or of another load
// of the same field) to *ast.Identifier whose success edge dominates the use,
// or whose failure edge only leads to failing returns.
func identifierTested(recv ssa.Value, use ssa.Instruction) bool {
	same := func(v ssa.Value) bool {
		if v == recv {
			return true
		}
		l1, ok1 := v.(*ssa.UnOp)
		l2, ok2 := recv.(*ssa.UnOp)
		if ok1 && ok2 {
			f1, ok1 := l1.X.(*ssa.FieldAddr)
			f2, ok2 := l2.X.(*ssa.FieldAddr)
			return ok1 && ok2 && f1.Field == f2.Field && sameBase(f1.X, f2.X)
		}
		return false
	}
	fn := use.Parent()
	for _, b := range fn.Blocks {
		for _, ins := range b.Instrs {
			ta, ok := ins.(*ssa.TypeAssert)
			if !ok || !same(ta.X) {
				continue
			}
			pt, ok := ta.AssertedType.(*types.Pointer)
			if !ok || !isNamed(pt.Elem(), "ast", "Identifier") {
				continue
			}
			if !ta.CommaOk {
				if dominatesInstr(ta, use) {
					return true
				}
				continue
			}
			for _, ref := range *ta.Referrers() {
				ex, ok := ref.(*ssa.Extract)
				if !ok || ex.Index != 1 {
					continue
				}
				for _, r2 := range *ex.Referrers() {
					iff, ok := r2.(*ssa.If)
					if !ok {
						continue
					}
					t, f := iff.Block().Succs[0], iff.Block().Succs[1]
					if len(t.Preds) == 1 && (t == use.Block() || t.Dominates(use.Block())) {
						return true
					}
					if (allReturnsFail(f) || allReturnsNil(f)) && dominatesInstr(ta, use) {
						return true
					}
					// `if !ok { fail }`: successors swapped
					if (allReturnsFail(t) || allReturnsNil(t)) && len(f.Preds) >= 1 && dominatesInstr(ta, use) && (f == use.Block() || f.Dominates(use.Block())) {
						return true
					}
				}
			}
		}
	}
	return false
}

// ---------------------------------------------------------------------------
// R-SWITCHONCE

func init() {
	register(&Rule{ID: "R-SWITCHONCE", Floor: 1, Run: ruleSwitchOnce,
		Text: "The subject of a switch is translated once: the compiler does not emit its code inside the loop over the arms. Emitted once per arm it is evaluated again for every arm that is tried, so a subject with an effect — a host function call — is called several times for one switch, and each arm is compared with a different value."})
}

func ruleSwitchOnce(p *Program, r *Reporter) {
	a := needAnchors(p, r)
	if a == nil {
		return
	}
	key := "compile/case *ast.SwitchExpression/the subject is translated once"
	n := 0
	bad := ""
	// wherever the translation of a switch sits: in the compiler's case or in a
	// function of its own
	var blocks []*ssa.BasicBlock
	family := map[*ssa.Function]bool{}
	for _, f := range compilerFamily(p, a) {
		blocks = append(blocks, f.Blocks...)
		family[f] = true
	}
	fn := a.compile
	for _, b := range blocks {
		for _, ins := range b.Instrs {
			c, ok := ins.(*ssa.Call)
			if !ok || c.Call.StaticCallee() == nil || len(c.Call.Args) < 2 {
				continue
			}
			// a call of the compiler — or of a part of it that compiles the
			// node it is handed — …
			var v ssa.Value
			if c.Call.StaticCallee() == a.compile {
				v = c.Call.Args[1]
			} else if family[c.Call.StaticCallee()] {
				h := c.Call.StaticCallee()
				for i, arg := range c.Call.Args {
					if i == 0 || i >= len(h.Params) || !isASTish(arg.Type()) {
						continue
					}
					fld, isLd := stripIfaceConv(arg).(*ssa.UnOp)
					if !isLd {
						continue
					}
					if fa, isFa := fld.X.(*ssa.FieldAddr); !isFa || !isNamed(deref(fa.X.Type()), "ast", "SwitchExpression") {
						continue
					}
					for _, hb := range h.Blocks {
						for _, hi := range hb.Instrs {
							if c2, ok := staticCalleeIs(hi, a.compile); ok && len(c2.Call.Args) >= 2 && stripIfaceConv(c2.Call.Args[1]) == ssa.Value(h.Params[i]) {
								v = arg
							}
						}
					}
				}
			}
			if v == nil {
				continue
			}
			// … whose argument is a non-slice field of the switch node itself
			for {
				if mi, ok := v.(*ssa.MakeInterface); ok {
					v = mi.X
					continue
				}
				if ci, ok := v.(*ssa.ChangeInterface); ok {
					v = ci.X
					continue
				}
				break
			}
			ld, ok := v.(*ssa.UnOp)
			if !ok {
				continue
			}
			fa, ok := ld.X.(*ssa.FieldAddr)
			if !ok || !isNamed(deref(fa.X.Type()), "ast", "SwitchExpression") {
				continue
			}
			n++
			// inside a loop?
			inLoop := blockReaches(b, b, nil) && func() bool {
				for _, s := range b.Succs {
					if s == b || blockReaches(s, b, nil) {
						return true
					}
				}
				return false
			}()
			if inLoop {
				bad = p.Pos(c.Pos())
			}
		}
	}
	if n == 0 {
		r.Undecided(key, p.Pos(fn.Pos()), "the switch case never compiles a field of the switch node itself")
		return
	}
	if bad != "" {
		r.Fail(key, bad, "the code of the switch subject is emitted inside the loop over the arms, once for every expression of every arm: `switch (next()) { case 5 {…} case 1 {…} }` calls the host function next() once per arm tried, and the second arm is compared with the second result")
		return
	}
	r.OkNT(key, p.Pos(fn.Pos()), fmt.Sprintf("%d compile call(s) on the subject, none inside a loop", n))
}

// ---------------------------------------------------------------------------
// R-CHILDCOMPILED

func init() {
	register(&Rule{ID: "R-CHILDCOMPILED", Floor: 10, Run: ruleChildCompiled,
		Text: "A single child of a syntax node (a condition, an operand, a subject, a body) that the compiler translates at all is translated on every path through the node's case that ends in success, unless the child is absent (tested against nil): its translation is where an invalid child is reported, so a path around it accepts a script part of which was never looked at."})
}

func ruleChildCompiled(p *Program, r *Reporter) {
	a := needAnchors(p, r)
	if a == nil {
		return
	}
	fn := a.compile
	if len(fn.Params) < 2 {
		r.Undecided("compiler cases", p.Pos(fn.Pos()), "the compile function has no node parameter")
		return
	}
	isCompile := func(ins ssa.Instruction) *ssa.CallCommon {
		cc := callOf(ins)
		if cc == nil || cc.StaticCallee() == nil || len(cc.Args) < 2 || !isASTish(cc.Args[1].Type()) {
			return nil
		}
		if cc.StaticCallee() == a.compile || p.Reachable(cc.StaticCallee())[a.compile] {
			return cc
		}
		return nil
	}
	strip := func(v ssa.Value) ssa.Value {
		for {
			switch x := v.(type) {
			case *ssa.MakeInterface:
				v = x.X
			case *ssa.ChangeInterface:
				v = x.X
			default:
				return v
			}
		}
	}
	n := 0
	for _, b := range fn.Blocks {
		for _, ins := range b.Instrs {
			ta, ok := ins.(*ssa.TypeAssert)
			if !ok || !ta.CommaOk || ta.X != ssa.Value(fn.Params[1]) {
				continue
			}
			pt, ok := ta.AssertedType.(*types.Pointer)
			if !ok || !isASTish(pt) {
				continue
			}
			st, ok := pt.Elem().Underlying().(*types.Struct)
			if !ok {
				continue
			}
			var typed, okv ssa.Value
			for _, ref := range *ta.Referrers() {
				if ex, isEx := ref.(*ssa.Extract); isEx {
					if ex.Index == 0 {
						typed = ex
					} else {
						okv = ex
					}
				}
			}
			if typed == nil || okv == nil {
				continue
			}
			var entry *ssa.BasicBlock
			for _, ref := range *okv.Referrers() {
				if iff, isIf := ref.(*ssa.If); isIf {
					entry = iff.Block().Succs[0]
				}
			}
			if entry == nil || len(entry.Preds) != 1 {
				continue
			}
			tname := typeStr(pt)
			for i := 0; i < st.NumFields(); i++ {
				f := st.Field(i)
				switch f.Type().Underlying().(type) {
				case *types.Interface, *types.Pointer:
				default:
					continue
				}
				if !isASTish(f.Type()) {
					continue
				}
				// loads of the field and the compile calls on them
				isField := func(v ssa.Value) bool {
					ld, ok := strip(v).(*ssa.UnOp)
					if !ok || ld.Op != token.MUL {
						return false
					}
					fa, ok := ld.X.(*ssa.FieldAddr)
					return ok && fa.X == typed && fa.Field == i
				}
				callBlocks := map[*ssa.BasicBlock]bool{}
				for _, rb := range fn.Blocks {
					if !(rb == entry || entry.Dominates(rb)) {
						continue
					}
					for _, in := range rb.Instrs {
						if cc := isCompile(in); cc != nil && isField(cc.Args[1]) {
							callBlocks[rb] = true
						}
					}
				}
				if len(callBlocks) == 0 {
					continue
				}
				n++
				key := fmt.Sprintf("compile/case %s/child %s is translated on every successful path", tname, f.Name())
				bad := token.NoPos
				seen := map[*ssa.BasicBlock]bool{}
				var walk func(bl *ssa.BasicBlock)
				walk = func(bl *ssa.BasicBlock) {
					if bad.IsValid() || seen[bl] {
						return
					}
					seen[bl] = true
					if callBlocks[bl] {
						return
					}
					if ret, ok := terminator(bl).(*ssa.Return); ok {
						if isSuccessReturn(ret) || mayBeSuccessReturn(ret) {
							bad = ret.Pos()
						}
						return
					}
					var skip *ssa.BasicBlock
					if iff, ok := terminator(bl).(*ssa.If); ok {
						if bo, ok := iff.Cond.(*ssa.BinOp); ok && (bo.Op == token.EQL || bo.Op == token.NEQ) {
							x, y := bo.X, bo.Y
							if isNilConst(x) {
								x, y = y, x
							}
							if isNilConst(y) && isField(x) {
								skip = bl.Succs[0]
								if bo.Op == token.NEQ {
									skip = bl.Succs[1]
								}
							}
						}
					}
					for _, sc := range bl.Succs {
						if sc == skip {
							continue
						}
						if !(sc == entry || entry.Dominates(sc)) {
							// leaves the case without having been translated
							bad = firstPos(sc)
							if !bad.IsValid() {
								bad = firstPos(bl)
							}
							return
						}
						walk(sc)
					}
				}
				walk(entry)
				if bad.IsValid() {
					r.Fail(key, p.Pos(firstPos(entry)), fmt.Sprintf("the case translates the node's %s on some paths only: there is a successful path through the case on which it is never handed to the compiler (it is translated inside a loop over other children, which may have nothing to loop over), so an invalid %s is accepted there and silently dropped from the program", f.Name(), f.Name()))
				} else {
					r.OkNT(key, p.Pos(firstPos(entry)), "every successful path passes the translation, or the child is absent")
				}
			}
		}
	}
	if n == 0 {
		r.Undecided("compiler cases", p.Pos(fn.Pos()), "no single-child translation found in the compiler's cases")
	}
}

// ---------------------------------------------------------------------------
// R-BODYRETURN

func init() {
	register(&Rule{ID: "R-BODYRETURN", Floor: 1, Run: ruleBodyReturn,
		Text: "Between the translation of a function's body and the moment its bytecode is stored as the function, every path either emits a return instruction or has just seen that the last instruction emitted is one: a function's bytecode always ends in a return, whatever the shape of its body, so a call can never run off the end of the function (which the machine takes for a quiet null result)."})
}

// readFromProgram: the opcode value was read out of the program being emitted —
// by a function that walks it, or by a loop over its bytes in place.
func readFromProgram(v ssa.Value, a *anchors) bool {
	field := instructionsField(a)
	seen := map[ssa.Value]bool{}
	var walk func(v ssa.Value, d int) bool
	walk = func(v ssa.Value, d int) bool {
		if v == nil || seen[v] || d > 8 {
			return false
		}
		seen[v] = true
		switch x := v.(type) {
		case *ssa.Call:
			cal := x.Call.StaticCallee()
			if cal == nil || len(cal.Blocks) == 0 {
				return false
			}
			for _, b := range cal.Blocks {
				if ret, ok := terminator(b).(*ssa.Return); ok && len(ret.Results) == 1 {
					if walk(ret.Results[0], d+1) {
						return true
					}
				}
			}
		case *ssa.Phi:
			for _, e := range x.Edges {
				if walk(e, d+1) {
					return true
				}
			}
		case *ssa.Convert:
			return walk(x.X, d+1)
		case *ssa.ChangeType:
			return walk(x.X, d+1)
		case *ssa.UnOp:
			if ia, ok := x.X.(*ssa.IndexAddr); ok && x.Op == token.MUL {
				if ld, ok := ia.X.(*ssa.UnOp); ok && fieldKey(ld.X) == field {
					return true
				}
			}
		}
		return false
	}
	return walk(v, 0)
}

func ruleBodyReturn(p *Program, r *Reporter) {
	a := needAnchors(p, r)
	if a == nil {
		return
	}
	oc := p.Opcodes()
	n := 0
	for fn := range p.Reachable(a.compile) {
		if fnPkg(fn) == nil || fnPkg(fn).Pkg.Path() != Mod {
			continue
		}
		emits := map[ssa.Instruction]string{}
		for _, es := range emitSites(p, a, fn) {
			emits[es.call] = es.op
		}
		for _, b := range fn.Blocks {
			for _, ins := range b.Instrs {
				st, ok := ins.(*ssa.Store)
				if !ok {
					continue
				}
				owner, fld, ok := fieldOf(st.Addr)
				if !ok || owner == nil || owner.Obj().Name() != "UserFunction" || !isNamed(st.Val.Type(), "code", "Instructions") {
					continue
				}
				_ = fld
				n++
				key := fmt.Sprintf("%s/%s/the stored function ends in a return", p.FnName(fn), outerCase(p, fn, st.Pos()))
				// walk back from the capture — or, when the program is what a
				// part of the compiler handed back, from each successful return
				// of that part
				bad := token.NoPos
				var walkBack func(wf *ssa.Function, wb *ssa.BasicBlock, widx int, endPos token.Pos)
				// the function literals handed to a part of the compiler that calls
				// its parameter (`withFreshBuffer(func() error { … })`)
				var workHandedIn func(param *ssa.Parameter) []*ssa.Function
				walkBack = func(wf *ssa.Function, wb *ssa.BasicBlock, widx int, endPos token.Pos) {
					wemits := map[ssa.Instruction]string{}
					for _, es := range emitSites(p, a, wf) {
						wemits[es.call] = es.op
					}
					seen := map[*ssa.BasicBlock]bool{}
					var back func(bl *ssa.BasicBlock, from int)
					back = func(bl *ssa.BasicBlock, from int) {
						if bad.IsValid() {
							return
						}
						for j := from; j >= 0; j-- {
							in := bl.Instrs[j]
							if op, ok := wemits[in]; ok && op == "OpReturn" {
								return
							}
							// the work that was handed in runs here: every successful
							// end of it must have emitted the return
							if c, ok := in.(*ssa.Call); ok && c.Call.StaticCallee() == nil && !c.Call.IsInvoke() {
								if prm, ok := c.Call.Value.(*ssa.Parameter); ok && workHandedIn != nil {
									if lits := workHandedIn(prm); len(lits) > 0 {
										for _, lit := range lits {
											nret := 0
											for _, lb := range lit.Blocks {
												if ret, ok := terminator(lb).(*ssa.Return); ok && isSuccessReturn(ret) {
													nret++
													walkBack(lit, lb, len(lb.Instrs)-2, ret.Pos())
												}
											}
											if nret == 0 && !bad.IsValid() {
												bad = c.Pos()
											}
										}
										return
									}
								}
							}
							if c, ok := in.(*ssa.Call); ok && c.Call.StaticCallee() != nil && p.Reachable(c.Call.StaticCallee())[a.compile] && len(c.Call.Args) >= 2 && isASTish(c.Call.Args[1].Type()) {
								bad = c.Pos()
								return
							}
						}
						if len(bl.Preds) == 0 {
							bad = endPos
							return
						}
						for _, pd := range bl.Preds {
							// did we come along the edge on which the last opcode is known to be a return?
							if iff, ok := terminator(pd).(*ssa.If); ok {
								if bo, ok := iff.Cond.(*ssa.BinOp); ok && (bo.Op == token.NEQ || bo.Op == token.EQL) {
									x, y := bo.X, bo.Y
									if _, isC := x.(*ssa.Const); isC {
										x, y = y, x
									}
									if isOpcodeType(x.Type()) && readFromProgram(x, a) && oc.ssaName(y) == "OpReturn" {
										knownSide := pd.Succs[0]
										if bo.Op == token.NEQ {
											knownSide = pd.Succs[1]
										}
										if knownSide == bl && pd.Succs[0] != pd.Succs[1] {
											// the test itself must follow the body: nothing to check before it
											continue
										}
									}
								}
							}
							if !seen[pd] {
								seen[pd] = true
								back(pd, len(pd.Instrs)-1)
							}
						}
					}
					back(wb, widx)
				}
				var helper *ssa.Function
				if os := origins(st.Val); len(os) == 1 {
					var cl *ssa.Call
					switch x := os[0].(type) {
					case *ssa.Extract:
						if x.Index == 0 {
							cl, _ = x.Tuple.(*ssa.Call)
						}
					case *ssa.Call:
						cl = x
					}
					if cl != nil && cl.Call.StaticCallee() != nil && fnPkg(cl.Call.StaticCallee()) != nil && fnPkg(cl.Call.StaticCallee()).Pkg.Path() == Mod && p.Reachable(cl.Call.StaticCallee())[a.compile] {
						helper = cl.Call.StaticCallee()
					}
				}
				if helper != nil {
					workHandedIn = func(prm *ssa.Parameter) []*ssa.Function {
						if prm.Parent() != helper {
							return nil
						}
						k := -1
						for i, q := range helper.Params {
							if q == prm {
								k = i
							}
						}
						var out []*ssa.Function
						for _, site := range staticCallSites(p, helper) {
							args := site.Common().Args
							if k < 0 || k >= len(args) {
								return nil
							}
							mc, ok := args[k].(*ssa.MakeClosure)
							if !ok {
								return nil
							}
							lit, ok := mc.Fn.(*ssa.Function)
							if !ok {
								return nil
							}
							out = append(out, lit)
						}
						return out
					}
					nret := 0
					for _, hb := range helper.Blocks {
						// (a return that forwards the error of the work it was handed
						// succeeds whenever that work did)
						if ret, ok := terminator(hb).(*ssa.Return); ok && (isSuccessReturn(ret) || mayBeSuccessReturn(ret)) {
							nret++
							walkBack(helper, hb, len(hb.Instrs)-2, ret.Pos())
						}
					}
					if nret == 0 {
						bad = st.Pos()
					}
				} else {
					idx := 0
					for j, in := range b.Instrs {
						if in == ins {
							idx = j
						}
					}
					walkBack(fn, b, idx-1, st.Pos())
				}
				if bad.IsValid() {
					r.Fail(key, p.Pos(st.Pos()), "on some path from the translation of the body ("+p.Pos(bad)+") to this point no return instruction is emitted and the last instruction is not known to be one: the function's bytecode can end without a return — a body whose last statement is a switch without a default, say — and a call that reaches the end runs off the function")
				} else {
					r.OkNT(key, p.Pos(st.Pos()), "every path emits OpReturn or has tested that the last opcode is OpReturn")
				}
			}
		}
	}
	if n == 0 {
		r.Undecided("function bytecode capture", "-", "no store of a program into a UserFunction found in the compiler")
	}
}

// ---------------------------------------------------------------------------
// R-TABLEKEEP

func init() {
	register(&Rule{ID: "R-TABLEKEEP", Floor: 1, Run: ruleTableKeep,
		Text: "Where the machine replaces its table of user-defined functions by a table it built itself (the optimizer rewrites every function's bytecode), the new table is filled by a loop over the old one whose every iteration stores the entry under the name it was found under: no function is lost or renamed on the way, so a call that works without the optimizer works with it."})
}

func ruleTableKeep(p *Program, r *Reporter) {
	n := 0
	for _, fn := range p.LibFns {
		if fnPkg(fn).Pkg.Path() != Mod+"/vm" {
			continue
		}
		for _, b := range fn.Blocks {
			for _, ins := range b.Instrs {
				st, ok := ins.(*ssa.Store)
				if !ok || fieldKey(st.Addr) != "vm.VM.functions" {
					continue
				}
				mk, ok := st.Val.(*ssa.MakeMap)
				if !ok {
					continue // the table it was given, or another field's
				}
				n++
				key := p.FnName(fn) + "/the rebuilt function table keeps every function"
				// the inserts into the new table
				var ups []*ssa.MapUpdate
				for _, ref := range *mk.Referrers() {
					if mu, ok := ref.(*ssa.MapUpdate); ok && mu.Map == ssa.Value(mk) {
						ups = append(ups, mu)
					}
				}
				if len(ups) == 0 {
					r.Fail(key, p.Pos(st.Pos()), "the machine's function table is replaced by a new map that nothing is ever put into: every call of a user-defined function fails")
					continue
				}
				bad := ""
				for _, mu := range ups {
					// the loop: a header whose Next is over a map of the same type
					var header *ssa.BasicBlock
					var next *ssa.Next
					for h := mu.Block(); h != nil; h = h.Idom() {
						for _, in := range h.Instrs {
							if nx, ok := in.(*ssa.Next); ok {
								if rg, ok := nx.Iter.(*ssa.Range); ok && types.Identical(rg.X.Type().Underlying(), mk.Type().Underlying()) {
									header, next = h, nx
								}
							}
						}
						if header != nil {
							break
						}
					}
					if header == nil {
						bad = "an entry is put into the new table outside a loop over the old one"
						continue
					}
					// key is the loop's key
					keyOK := false
					if ex, ok := mu.Key.(*ssa.Extract); ok && ex.Tuple == ssa.Value(next) && ex.Index == 1 {
						keyOK = true
					}
					if !keyOK {
						bad = "the entry is stored under a name that is not the one it was found under"
					}
					for _, pd := range header.Preds {
						if header.Dominates(pd) && !(mu.Block() == pd || mu.Block().Dominates(pd)) {
							bad = "an iteration of the loop over the old table can go on to the next function without storing this one in the new table (a continue, or a branch around the store): that function no longer exists for the optimized machine, and calling it fails with a does-not-exist error although it works without the optimizer"
						}
					}
				}
				if bad != "" {
					r.Fail(key, p.Pos(st.Pos()), bad)
				} else {
					r.OkNT(key, p.Pos(st.Pos()), "every iteration over the old table stores the entry under its own name")
				}
			}
		}
	}
	if n == 0 {
		r.OkNT("the function table is not rebuilt", "-", "the machine keeps the table it was constructed with")
	}
}

// ---------------------------------------------------------------------------
// R-POOLOWNER

func init() {
	register(&Rule{ID: "R-POOLOWNER", Floor: 4, Run: rulePoolOwner,
		Text: "The constant pool belongs to the compiler: the evaluator's pool is only emptied (Prepare) or extended by one value at its end (addConstant), no slot of either pool is ever assigned, and the machine's pool is the one it was constructed with — it is stored by the constructor alone. The compiler, the machine, Dump and the driver then index one and the same table, a reference that was valid when it was compiled stays valid, and a literal keeps denoting the value that was compiled for it."})
}

func rulePoolOwner(p *Program, r *Reporter) {
	pools := map[string]bool{"evalfilter.Eval.constants": true, "vm.VM.constants": true}
	isPoolLoad := func(v ssa.Value) (string, bool) {
		ld, ok := v.(*ssa.UnOp)
		if !ok || ld.Op != token.MUL {
			return "", false
		}
		k := fieldKey(ld.X)
		return k, pools[k]
	}
	found := map[string]int{}
	nth := map[string]int{}
	for _, fn := range p.LibFns {
		for _, b := range fn.Blocks {
			for _, ins := range b.Instrs {
				st, ok := ins.(*ssa.Store)
				if !ok {
					continue
				}
				// a slot of a pool
				if ia, ok := st.Addr.(*ssa.IndexAddr); ok {
					if k, isPool := isPoolLoad(ia.X); isPool {
						nth[p.FnName(fn)+k]++
						r.Fail(fmt.Sprintf("%s/slot of %s assigned (%d)", p.FnName(fn), k, nth[p.FnName(fn)+k]), p.Pos(st.Pos()), "a slot of the constant pool is overwritten: the pool is de-duplicated, so the slot serves every occurrence of that literal in the script — in the main program and in every function — and all of them change value")
					}
					continue
				}
				k := fieldKey(st.Addr)
				if !pools[k] {
					continue
				}
				found[k]++
				nth[p.FnName(fn)+k]++
				key := fmt.Sprintf("%s/store %d to %s", p.FnName(fn), nth[p.FnName(fn)+k], k)
				switch k {
				case "vm.VM.constants":
					// only in the constructor, from its parameter
					_, fromParam := st.Val.(*ssa.Parameter)
					if fn.Signature.Recv() == nil && fromParam {
						r.OkNT(key, p.Pos(st.Pos()), "the constructor stores the pool it was given")
					} else {
						r.Fail(key, p.Pos(st.Pos()), "the machine replaces or grows its constant pool: the evaluator's own pool — which Dump and the driver index with the operands found in the program, outside any recover — does not change with it, so a reference the machine made is out of range there")
					}
				default:
					if c, isApp := isBuiltinCall(st.Val, "append"); isApp {
						src, isPool := isPoolLoad(c.Call.Args[0])
						one := false
						if sl, ok := c.Call.Args[1].(*ssa.Slice); ok {
							if al, ok := sl.X.(*ssa.Alloc); ok {
								if at, ok := deref(al.Type()).Underlying().(*types.Array); ok && at.Len() == 1 {
									one = true
								}
							}
						}
						if isPool && src == k && one {
							r.OkNT(key, p.Pos(st.Pos()), "one value appended at the end")
							continue
						}
					}
					if mk, ok := st.Val.(*ssa.MakeSlice); ok {
						if n, isC := constInt(mk.Len); isC && n == 0 {
							r.OkNT(key, p.Pos(st.Pos()), "the pool is emptied")
							continue
						}
					}
					if sl, ok := st.Val.(*ssa.Slice); ok {
						if al, ok := sl.X.(*ssa.Alloc); ok {
							if at, ok := deref(al.Type()).Underlying().(*types.Array); ok && at.Len() == 0 {
								r.OkNT(key, p.Pos(st.Pos()), "the pool is emptied")
								continue
							}
						}
					}
					if isNilConst(st.Val) {
						r.OkNT(key, p.Pos(st.Pos()), "the pool is emptied")
						continue
					}
					r.Fail(key, p.Pos(st.Pos()), "the evaluator's constant pool is assigned something other than itself plus one value, or empty: indexes handed out earlier no longer name the constants they were compiled for")
				}
			}
		}
	}
	for k := range pools {
		if found[k] == 0 {
			r.Undecided("stores to "+k, "-", "no store to the pool field found (renamed or restructured)")
		} else {
			r.OkNT("no slot of "+k+" is assigned", "-", "no indexed store into the pool in library code")
		}
	}
}

// ---------------------------------------------------------------------------
// R-REFLECTKIND

func init() {
	register(&Rule{ID: "R-REFLECTKIND", Floor: 8, Run: ruleReflectKind,
		Text: "In the conversion of host values, every reflect.Value accessor that panics on the wrong kind (Elem, Int, Uint, Float, Bool, MapKeys, MapIndex, Len, Index) is reached only on paths on which the value's Kind() has been compared with a kind the accessor accepts — in the function itself or at every call site that passes the value in — and Interface() only where CanInterface() held or the value was obtained from reflect.ValueOf without passing through a struct field (a member of a slice or map read from an unexported field inherits the restriction); a converted member is asserted to a more specific type only with the comma-ok form. One field the engine cannot handle then yields null for that field instead of failing the lookup of every other field of the object."})
}

var reflectNeeds = map[string][]string{
	"Elem": {"Interface", "Ptr", "Pointer"}, "Int": {"Int", "Int8", "Int16", "Int32", "Int64"},
	"Uint":  {"Uint", "Uint8", "Uint16", "Uint32", "Uint64", "Uintptr"},
	"Float": {"Float32", "Float64"}, "Bool": {"Bool"},
	"MapKeys": {"Map"}, "MapIndex": {"Map"}, "MapRange": {"Map"},
	"Len":   {"Array", "Chan", "Map", "Slice", "String"},
	"Index": {"Array", "Slice", "String"},
}

// kindName: the name of a reflect.Kind constant value.
func kindName(v ssa.Value) string {
	c, ok := v.(*ssa.Const)
	if !ok || c.Value == nil || !isStdNamed(c.Type(), "reflect", "Kind") {
		return ""
	}
	n, ok := constInt(c)
	if !ok {
		return ""
	}
	names := []string{"Invalid", "Bool", "Int", "Int8", "Int16", "Int32", "Int64", "Uint", "Uint8", "Uint16", "Uint32", "Uint64", "Uintptr", "Float32", "Float64", "Complex64", "Complex128", "Array", "Chan", "Func", "Interface", "Map", "Pointer", "Slice", "String", "Struct", "UnsafePointer"}
	if n >= 0 && int(n) < len(names) {
		return names[n]
	}
	return ""
}

// kindsAt computes, for every block of fn, the set of kinds the value v is
// known to have there (nil = nothing known).  entry seeds the entry block.
func kindsAt(fn *ssa.Function, v ssa.Value, entry map[string]bool) map[*ssa.BasicBlock]map[string]bool {
	isKindOf := func(x ssa.Value) bool {
		c, ok := x.(*ssa.Call)
		return ok && c.Call.StaticCallee() != nil && c.Call.StaticCallee().String() == "(reflect.Value).Kind" && len(c.Call.Args) == 1 && c.Call.Args[0] == v
	}
	out := map[*ssa.BasicBlock]map[string]bool{}
	visited := map[*ssa.BasicBlock]bool{}
	if len(fn.Blocks) == 0 {
		return out
	}
	out[fn.Blocks[0]] = entry
	visited[fn.Blocks[0]] = true
	union := func(a, b map[string]bool) map[string]bool {
		if a == nil || b == nil {
			return nil
		}
		u := map[string]bool{}
		for k := range a {
			u[k] = true
		}
		for k := range b {
			u[k] = true
		}
		return u
	}
	same := func(a, b map[string]bool) bool {
		if (a == nil) != (b == nil) || len(a) != len(b) {
			return false
		}
		for k := range a {
			if !b[k] {
				return false
			}
		}
		return true
	}
	for changed, it := true, 0; changed && it < 100; it++ {
		changed = false
		for _, b := range fn.Blocks {
			if b == fn.Blocks[0] {
				continue
			}
			var acc map[string]bool
			first := true
			for _, pd := range b.Preds {
				if !visited[pd] {
					continue
				}
				f := out[pd]
				if iff, ok := terminator(pd).(*ssa.If); ok && pd.Succs[0] != pd.Succs[1] {
					if bo, ok := iff.Cond.(*ssa.BinOp); ok && bo.Op == token.EQL && pd.Succs[0] == b {
						if k := kindName(bo.Y); k != "" && isKindOf(bo.X) {
							f = map[string]bool{k: true}
						} else if k := kindName(bo.X); k != "" && isKindOf(bo.Y) {
							f = map[string]bool{k: true}
						}
					}
				}
				if first {
					acc, first = f, false
				} else {
					acc = union(acc, f)
				}
			}
			if first {
				continue
			}
			if !visited[b] || !same(out[b], acc) {
				visited[b] = true
				out[b] = acc
				changed = true
			}
		}
	}
	return out
}

func ruleReflectKind(p *Program, r *Reporter) {
	// the conversion functions: everything of package vm that takes or produces reflect.Value
	var fns []*ssa.Function
	for _, fn := range p.LibFns {
		if fnPkg(fn).Pkg.Path() != Mod+"/vm" {
			continue
		}
		uses := false
		for _, b := range fn.Blocks {
			for _, ins := range b.Instrs {
				if c, ok := ins.(*ssa.Call); ok && c.Call.StaticCallee() != nil && strings.HasPrefix(c.Call.StaticCallee().String(), "(reflect.Value).") {
					uses = true
				}
			}
		}
		if uses {
			fns = append(fns, fn)
		}
	}
	sort.Slice(fns, func(i, j int) bool { return p.FnName(fns[i]) < p.FnName(fns[j]) })
	n := 0
	for _, fn := range fns {
		cache := map[ssa.Value]map[*ssa.BasicBlock]map[string]bool{}
		nth := map[string]int{}
		for _, b := range fn.Blocks {
			for _, ins := range b.Instrs {
				if ta, isTA := ins.(*ssa.TypeAssert); isTA && isObjectIface(ta.X.Type()) {
					// a converted member is asserted to be something more specific
					n++
					nth["assert"]++
					key := fmt.Sprintf("%s/assertion %d on a converted member is tested", p.FnName(fn), nth["assert"])
					if ta.CommaOk {
						r.OkNT(key, p.Pos(ta.Pos()), "comma-ok assertion to "+typeStr(ta.AssertedType))
					} else {
						r.Fail(key, p.Pos(ta.Pos()), "the assertion to "+typeStr(ta.AssertedType)+" panics for a member that converts to something else (a map keyed by bool or by a struct gives keys that are not hashable), and the panic aborts the conversion of the whole object: no field of it can be read any more")
					}
					continue
				}
				c, ok := ins.(*ssa.Call)
				if !ok || c.Call.StaticCallee() == nil || !strings.HasPrefix(c.Call.StaticCallee().String(), "(reflect.Value).") {
					continue
				}
				m := c.Call.StaticCallee().Name()
				recv := c.Call.Args[0]
				if m == "Interface" {
					n++
					nth[m]++
					key := fmt.Sprintf("%s/Interface() %d is applied to a value that may be looked at", p.FnName(fn), nth[m])
					if canInterfaceGuarded(recv, c) || fromValueOf(recv, 0) {
						r.OkNT(key, p.Pos(c.Pos()), "guarded by CanInterface(), or obtained from reflect.ValueOf without passing through a struct field")
					} else {
						r.Fail(key, p.Pos(c.Pos()), "Interface() panics for a value obtained from an unexported struct field, and nothing has asked CanInterface(): one unexported field of struct, slice, pointer or func kind (a sync.Mutex, or a []string, say) fails every lookup on the object, including the fields that could be converted")
					}
					continue
				}
				need, tracked := reflectNeeds[m]
				if !tracked {
					continue
				}
				n++
				nth[m]++
				key := fmt.Sprintf("%s/%s() %d is reached only for a kind it accepts", p.FnName(fn), m, nth[m])
				if _, ok := cache[recv]; !ok {
					cache[recv] = kindsAt(fn, recv, entryKinds(p, fn, recv))
				}
				got := cache[recv][b]
				okAll := got != nil && len(got) > 0
				for k := range got {
					found := false
					for _, w := range need {
						if w == k {
							found = true
						}
					}
					if !found {
						okAll = false
					}
				}
				if okAll {
					var ks []string
					for k := range got {
						ks = append(ks, k)
					}
					sort.Strings(ks)
					r.OkNT(key, p.Pos(c.Pos()), "kind is "+strings.Join(ks, "/")+" here")
				} else {
					r.Fail(key, p.Pos(c.Pos()), fmt.Sprintf("%s() panics unless the value's kind is one of %s, and on some path to this call the kind has not been established: a map[string]string member (not an interface) makes Elem() panic, and the panic aborts the conversion of the whole object — `return Name;` fails because an unrelated Labels field could not be converted", m, strings.Join(need, ", ")))
				}
			}
		}
	}
	if n == 0 {
		r.Undecided("reflection accessors", "-", "no kind-sensitive reflect.Value call found in package vm")
	}
	// A value that was replaced by what it contains (Elem(): the inside of an
	// interface or pointer — which may be nothing, the zero Value) has to be
	// looked at again before a method that panics on the zero Value is called
	// on it: CanInterface(), Interface(), Type().
	for _, fn := range fns {
		nth := 0
		for _, b := range fn.Blocks {
			for _, ins := range b.Instrs {
				c, ok := ins.(*ssa.Call)
				if !ok || c.Call.StaticCallee() == nil || len(c.Call.Args) == 0 {
					continue
				}
				switch c.Call.StaticCallee().String() {
				case "(reflect.Value).CanInterface", "(reflect.Value).Interface", "(reflect.Value).Type":
				default:
					continue
				}
				v := c.Call.Args[0]
				// only values that (on some path) are the result of Elem()
				fromElem := false
				var look func(x ssa.Value, depth int)
				seen := map[ssa.Value]bool{}
				look = func(x ssa.Value, depth int) {
					if depth > 6 || seen[x] {
						return
					}
					seen[x] = true
					switch y := x.(type) {
					case *ssa.Phi:
						for _, e := range y.Edges {
							look(e, depth+1)
						}
					case *ssa.Call:
						if cal := y.Call.StaticCallee(); cal != nil && cal.String() == "(reflect.Value).Elem" {
							fromElem = true
						}
					}
				}
				look(v, 0)
				if !fromElem {
					continue
				}
				nth++
				key := fmt.Sprintf("%s/%s() %d on a value taken out of an interface is reached only when there was something inside", p.FnName(fn), c.Call.StaticCallee().Name(), nth)
				// validated: on the valid side of IsValid(v), or behind a successful
				// comparison of v's kind with a constant
				valid := false
				for cur := b; cur != nil && cur.Idom() != nil; cur = cur.Idom() {
					d := cur.Idom()
					iff, isIf := terminator(d).(*ssa.If)
					if !isIf || len(d.Succs) != 2 {
						continue
					}
					onTrue := (d.Succs[0] == b || d.Succs[0].Dominates(b)) && len(d.Succs[0].Preds) == 1
					onFalse := (d.Succs[1] == b || d.Succs[1].Dominates(b)) && len(d.Succs[1].Preds) == 1
					cond, neg := iff.Cond, false
					if u, isU := cond.(*ssa.UnOp); isU && u.Op == token.NOT {
						cond, neg = u.X, true
					}
					switch x := cond.(type) {
					case *ssa.Call:
						if cal := x.Call.StaticCallee(); cal != nil && cal.String() == "(reflect.Value).IsValid" && x.Call.Args[0] == v {
							if (!neg && onTrue) || (neg && onFalse) {
								valid = true
							}
						}
					case *ssa.BinOp:
						if x.Op == token.EQL && !neg && onTrue {
							for _, side := range []ssa.Value{x.X, x.Y} {
								if kc, isC := side.(*ssa.Call); isC && kc.Call.StaticCallee() != nil && kc.Call.StaticCallee().String() == "(reflect.Value).Kind" && kc.Call.Args[0] == v {
									other := x.Y
									if side == x.Y {
										other = x.X
									}
									if k, isK := constInt(other); isK && k != 0 {
										valid = true
									}
								}
							}
						}
					}
				}
				if valid {
					r.OkNT(key, p.Pos(c.Pos()), "behind IsValid() or a successful test of its kind")
				} else {
					r.Fail(key, p.Pos(c.Pos()), c.Call.StaticCallee().Name()+"() is called on a value that was, on some path, replaced by its Elem() and not looked at again: the inside of a nil interface — a JSON null as the value of a nested object — is the zero Value, on which this method panics, and the panic aborts the conversion of the whole object (every field of such a document becomes unreadable)")
				}
			}
		}
	}
}

// entryKinds: when v is a parameter, the kinds established at every call site.
func entryKinds(p *Program, fn *ssa.Function, v ssa.Value) map[string]bool {
	return entryKindsD(p, fn, v, 0)
}

func entryKindsD(p *Program, fn *ssa.Function, v ssa.Value, depth int) map[string]bool {
	prm, ok := v.(*ssa.Parameter)
	if !ok || depth > 2 {
		return nil
	}
	idx := -1
	for i, q := range fn.Params {
		if q == prm {
			idx = i
		}
	}
	var acc map[string]bool
	sites := 0
	for _, caller := range p.LibFns {
		for _, c := range callsTo(caller, fn) {
			sites++
			arg := c.Common().Args[idx]
			// (the caller may itself have been handed the value with its kind established)
			ks := kindsAt(caller, arg, entryKindsD(p, caller, arg, depth+1))[c.Block()]
			if ks == nil {
				return nil
			}
			if acc == nil {
				acc = map[string]bool{}
			}
			for k := range ks {
				acc[k] = true
			}
		}
	}
	if sites == 0 {
		return nil
	}
	return acc
}

func canInterfaceGuarded(v ssa.Value, at ssa.Instruction) bool {
	for cur := at.Block(); cur.Idom() != nil; cur = cur.Idom() {
		d := cur.Idom()
		iff, ok := terminator(d).(*ssa.If)
		if !ok {
			continue
		}
		c, ok := iff.Cond.(*ssa.Call)
		if !ok || c.Call.StaticCallee() == nil || c.Call.StaticCallee().String() != "(reflect.Value).CanInterface" || c.Call.Args[0] != v {
			continue
		}
		if d.Succs[0] == at.Block() || d.Succs[0].Dominates(at.Block()) {
			return true
		}
	}
	return false
}

// fromValueOf: v was obtained from reflect.ValueOf(x) by MapKeys, Index,
// MapIndex, Elem or Indirect alone — never through a struct field, so it is
// not marked read-only and Interface() may be called on it.  (A member of a
// slice or map that was itself read from an unexported field inherits the
// mark: being a member is not enough.)
func fromValueOf(v ssa.Value, depth int) bool {
	if depth > 6 {
		return false
	}
	switch x := v.(type) {
	case *ssa.UnOp:
		if ia, ok := x.X.(*ssa.IndexAddr); ok && x.Op == token.MUL {
			return fromValueOf(ia.X, depth+1)
		}
	case *ssa.Call:
		cal := x.Call.StaticCallee()
		if cal == nil {
			return false
		}
		switch cal.String() {
		case "reflect.ValueOf":
			return true
		case "reflect.Indirect":
			return fromValueOf(x.Call.Args[0], depth+1)
		case "(reflect.Value).MapKeys", "(reflect.Value).Index", "(reflect.Value).MapIndex", "(reflect.Value).Elem":
			return fromValueOf(x.Call.Args[0], depth+1)
		}
	}
	return false
}

// mayBeSuccessReturn: the error returned is the result of a call that has not
// been found non-nil on the way here (`return e.compile(node.Condition)`): the
// function succeeds whenever that call does.
func mayBeSuccessReturn(ret *ssa.Return) bool {
	fn := ret.Parent()
	rs := fn.Signature.Results()
	for i := rs.Len() - 1; i >= 0; i-- {
		if !isErrorType(rs.At(i).Type()) {
			continue
		}
		if i >= len(ret.Results) {
			return false
		}
		v := ret.Results[i]
		switch v.(type) {
		case *ssa.Call, *ssa.Extract:
			return !nonNilAt(v, ret)
		}
		return false
	}
	return false
}
