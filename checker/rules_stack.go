package main

// Stack-discipline rules (C18, C02): value-less constructs in operand
// positions, and loop state kept on the operand stack.

import (
	"fmt"
	"go/types"
	"sort"
	"strings"

	"golang.org/x/tools/go/ssa"
)

func init() {
	register(&Rule{ID: "R-VALUEPOS", Floor: 2, Run: ruleValuePos,
		Text: "A construct whose translation leaves no value on the stack (it ends in an instruction that only pops: store, declare-local, increment, decrement) is rejected by Prepare wherever another construct will pop its value — as an operand, an element, an argument, a condition, the value of an assignment or of return. Decided as a necessary condition: some code of the parser or compiler must test a child for each such construct and fail; if nothing ever does, `x = y = 3` is accepted and underflows the stack at run time."})
	register(&Rule{ID: "R-LOOPSTACK", Floor: 1, Run: ruleLoopStack,
		Text: "A loop that keeps its iteration state on the operand stack (foreach: the iterable stays on top between iterations) cannot be disturbed by its body: either every statement's translation discards what it pushed, or the loop does not find its state by position on the stack."})
}

// pushingOpcodes: opcodes in whose interpreter case something is pushed
// (directly or through a VM method called from the case).
func pushingOpcodes(p *Program, a *anchors) map[string]bool {
	out := map[string]bool{}
	pushes := map[*ssa.Function]bool{}
	isPush := func(c *ssa.CallCommon) bool {
		cal := c.StaticCallee()
		return cal != nil && cal.Name() == "Push" && recvNamed(cal, "stack", "Stack")
	}
	for changed := true; changed; {
		changed = false
		for _, fn := range p.LibFns {
			if pushes[fn] || fnPkg(fn).Pkg.Path() != Mod+"/vm" || fn == a.vmRun {
				continue
			}
			for _, b := range fn.Blocks {
				for _, ins := range b.Instrs {
					cc := callOf(ins)
					if cc == nil {
						continue
					}
					if isPush(cc) || (cc.StaticCallee() != nil && pushes[cc.StaticCallee()]) {
						pushes[fn] = true
						changed = true
					}
				}
			}
		}
	}
	for _, b := range a.vmRun.Blocks {
		for _, ins := range b.Instrs {
			cc := callOf(ins)
			if cc == nil {
				continue
			}
			if isPush(cc) || (cc.StaticCallee() != nil && pushes[cc.StaticCallee()]) {
				label := outerCaseN(p, a.vmRun, ins.Pos(), 0)
				for _, part := range strings.Split(strings.TrimPrefix(label, "case "), ",") {
					part = strings.TrimSpace(part)
					if i := strings.LastIndex(part, "."); i >= 0 {
						part = part[i+1:]
					}
					if strings.HasPrefix(part, "Op") {
						out[part] = true
					}
				}
			}
		}
	}
	return out
}

func ruleValuePos(p *Program, r *Reporter) {
	a := needAnchors(p, r)
	if a == nil {
		return
	}
	oc := p.Opcodes()
	pushing := pushingOpcodes(p, a)
	if len(pushing) < 10 {
		r.Undecided("pushing opcodes", "-", "cannot read which interpreter cases push a value")
		return
	}
	fn := a.compile
	// value-less constructs: a success return of the case is reached with a
	// non-pushing, non-jump opcode emitted last
	last := map[string]map[string]bool{} // case label → last opcodes
	for _, b := range fn.Blocks {
		for _, ins := range b.Instrs {
			c, ok := staticCalleeIs(ins, a.emit)
			if !ok {
				continue
			}
			name := oc.ssaName(c.Call.Args[1])
			if name == "" {
				continue
			}
			// is this emit the last one before a success return of the function?
			isLast := true
			walkForward(c, func(i2 ssa.Instruction) bool {
				if i2 == ssa.Instruction(c) {
					return false
				}
				if c2, ok := i2.(*ssa.Call); ok {
					if c2.Call.StaticCallee() == a.emit || c2.Call.StaticCallee() == fn {
						isLast = false
						return true
					}
				}
				return false
			})
			if !isLast {
				continue
			}
			label := strings.TrimPrefix(outerCase(p, fn, c.Pos()), "case ")
			if last[label] == nil {
				last[label] = map[string]bool{}
			}
			last[label][name] = true
		}
	}
	skip := map[string]bool{"OpJump": true, "OpJumpIfFalse": true, "OpReturn": true, "OpPlaceholder": true, "OpNop": true}
	var valueless []string
	ends := map[string][]string{}
	for label, ops := range last {
		for o := range ops {
			if !pushing[o] && !skip[o] {
				ends[label] = append(ends[label], o)
			}
		}
		if len(ends[label]) > 0 {
			sort.Strings(ends[label])
			valueless = append(valueless, label)
		}
	}
	sort.Strings(valueless)
	if len(valueless) == 0 {
		r.OkNT("no construct's translation ends in a popping-only instruction", p.Pos(fn.Pos()), "")
		return
	}
	for _, label := range valueless {
		key := "value-less construct " + label + " is rejected where a value is needed"
		if label == "*ast.LocalVariable" {
			// `local x` is a statement keyword: the parser only produces it at statement level
			if site := rejectionSite(p, a, label); site != "" {
				r.OkNT(key, site, "tested and rejected")
			} else {
				r.Info(key, "-", "a declaration statement; the parser produces it at statement level only")
			}
			continue
		}
		if site := rejectionSite(p, a, label); site != "" {
			r.OkNT(key, site, "a child is tested for this construct and the test can fail Prepare (necessary condition only: that every value position is covered is not decided)")
			continue
		}
		if label == "*ast.InfixExpression" {
			label = "*ast.InfixExpression (compound assignment: += -= *= /=)"
		}
		r.Fail(key, p.Pos(fn.Pos()), fmt.Sprintf("the translation of %s ends in %s, which leaves nothing on the stack, and neither the parser nor the compiler ever tests a child node for this construct: it is accepted as an operand, element, argument, condition or assigned value, and the consumer's pop underflows the stack at run time — an accepted script fails with the machine's own \"Pop from an empty stack\"", label, strings.Join(ends[label], "/")))
	}
}

// rejectionSite: a type test of some value other than compile's own node
// parameter against the construct's type, in the parser or the compiler.
func rejectionSite(p *Program, a *anchors, label string) string {
	want := strings.TrimPrefix(label, "*ast.")
	var fns []*ssa.Function
	fns = append(fns, parserFns(p)...)
	for f := range p.Reachable(a.compile) {
		if fnPkg(f) != nil && fnPkg(f).Pkg.Path() == Mod {
			fns = append(fns, f)
		}
	}
	for _, fn := range fns {
		for _, b := range fn.Blocks {
			for _, ins := range b.Instrs {
				ta, ok := ins.(*ssa.TypeAssert)
				if !ok {
					continue
				}
				pt, ok := ta.AssertedType.(*types.Pointer)
				if !ok || !isNamed(pt.Elem(), "ast", want) {
					continue
				}
				if fn == a.compile && len(fn.Params) >= 2 && ta.X == ssa.Value(fn.Params[1]) {
					continue // the main dispatch
				}
				// a hit must fail: the branch taken when the test succeeds only
				// leads to failing returns
				if !ta.CommaOk {
					continue
				}
				rejects := false
				for _, ref := range *ta.Referrers() {
					ex, ok := ref.(*ssa.Extract)
					if !ok || ex.Index != 1 {
						continue
					}
					for _, r2 := range *ex.Referrers() {
						if iff, ok := r2.(*ssa.If); ok {
							hit := iff.Block().Succs[0]
							if allReturnsFail(hit) || allReturnsNil(hit) {
								rejects = true
							}
						}
					}
				}
				if !rejects {
					continue
				}
				return p.Pos(ta.Pos()) + " in " + p.FnName(fn)
			}
		}
	}
	return ""
}

func ruleLoopStack(p *Program, r *Reporter) {
	a := needAnchors(p, r)
	if a == nil {
		return
	}
	oc := p.Opcodes()
	key := "the foreach body cannot bury the iteration state"
	// (1) does the iteration step find its state by popping?
	popsInNext := 0
	for _, b := range a.vmRun.Blocks {
		for _, ins := range b.Instrs {
			cc := callOf(ins)
			if cc == nil || cc.StaticCallee() == nil || cc.StaticCallee().Name() != "Pop" || !recvNamed(cc.StaticCallee(), "stack", "Stack") {
				continue
			}
			if strings.Contains(outerCase(p, a.vmRun, ins.Pos()), "OpIterationNext") {
				popsInNext++
			}
		}
	}
	if popsInNext == 0 {
		r.OkNT(key, p.Pos(a.vmRun.Pos()), "the iteration step does not take its state from the operand stack")
		return
	}
	// (2) does an expression statement discard what its expression pushed?
	fn := a.compile
	emitsAfter := false
	found := false
	for _, b := range fn.Blocks {
		for _, ins := range b.Instrs {
			c, ok := staticCalleeIs(ins, a.emit)
			if !ok {
				continue
			}
			if strings.Contains(outerCase(p, fn, c.Pos()), "*ast.ExpressionStatement") {
				emitsAfter = true
				_ = oc
			}
		}
	}
	for _, b := range fn.Blocks {
		for _, ins := range b.Instrs {
			if c, ok := staticCalleeIs(ins, fn); ok && strings.Contains(outerCase(p, fn, c.Pos()), "*ast.ExpressionStatement") {
				found = true
			}
		}
	}
	if !found {
		r.Undecided(key, p.Pos(fn.Pos()), "cannot find the compiler case for expression statements")
		return
	}
	if emitsAfter {
		r.OkNT(key, p.Pos(fn.Pos()), "an expression statement emits an instruction after its expression (its value is discarded)")
		return
	}
	r.Fail(key, p.Pos(fn.Pos()), fmt.Sprintf("the iteration step pops its state (%d pops) from the top of the operand stack, and an expression statement is translated as its expression alone — whatever value it pushes stays on the stack: inside a foreach body a value-producing statement (`len(\"a\");`, a call of a user function whose result is not used, `x;`) buries the iterable, the next step pops that value instead and the run fails with \"… doesn't implement the Iterable interface\" after the first iteration", popsInNext))
}

// ---------------------------------------------------------------------------
// R-TEXTOFNODE

func init() {
	register(&Rule{ID: "R-TEXTOFNODE", Floor: 3, Run: ruleTextOfNode,
		Text: "Wherever the parser or the compiler uses the printed form of a syntax node in place of the node — the name of the function that is called, the name after a '.', the name that is assigned — the node is an identifier: its static type is *ast.Identifier, or a type test for it has succeeded on every path to the use. Any other expression in such a place would be accepted by Prepare and dropped without being compiled or checked."})
}

func ruleTextOfNode(p *Program, r *Reporter) {
	a := needAnchors(p, r)
	if a == nil {
		return
	}
	var fns []*ssa.Function
	fns = append(fns, parserFns(p)...)
	for f := range p.Reachable(a.compile) {
		if fnPkg(f) != nil && fnPkg(f).Pkg.Path() == Mod {
			fns = append(fns, f)
		}
	}
	sort.Slice(fns, func(i, j int) bool { return p.FnName(fns[i]) < p.FnName(fns[j]) })
	seenFn := map[*ssa.Function]bool{}
	for _, fn := range fns {
		if seenFn[fn] {
			continue
		}
		seenFn[fn] = true
		nth := map[string]int{}
		for _, b := range fn.Blocks {
			for _, ins := range b.Instrs {
				c, ok := ins.(*ssa.Call)
				if !ok {
					continue
				}
				var recv ssa.Value
				if c.Call.IsInvoke() && c.Call.Method.Name() == "String" {
					recv = c.Call.Value
				} else if cal := c.Call.StaticCallee(); cal != nil && cal.Name() == "String" && cal.Signature.Recv() != nil && len(c.Call.Args) == 1 {
					recv = c.Call.Args[0]
				}
				if recv == nil || !isASTish(recv.Type()) {
					continue
				}
				// only uses whose text flows into a node or a constant: everything but error messages
				if onlyInMessages(c) {
					continue
				}
				label := outerCase(p, fn, c.Pos())
				nth[label]++
				key := fmt.Sprintf("%s/%s/printed form %d stands for an identifier", p.FnName(fn), label, nth[label])
				if isNamed(deref(recv.Type()), "ast", "Identifier") {
					r.OkNT(key, p.Pos(c.Pos()), "static type *ast.Identifier")
					continue
				}
				if identifierTested(recv, c) {
					r.OkNT(key, p.Pos(c.Pos()), "dominated by a successful type test for *ast.Identifier")
					continue
				}
				r.Fail(key, p.Pos(c.Pos()), "the printed form of an arbitrary expression is used in place of the expression, which is never compiled: `(3 += 1)(2)` calls a function named \"(3 += 1)\", `x = a.(3 += 1)` indexes with that text — the invalid fragment inside is accepted by Prepare and silently dropped")
			}
		}
	}
}

// onlyInMessages: every use of the text is an argument of a formatting call
// whose result is an error or an entry of the parser's error list.
func onlyInMessages(c *ssa.Call) bool {
	refs := c.Referrers()
	if refs == nil || len(*refs) == 0 {
		return true
	}
	for _, ref := range *refs {
		switch x := ref.(type) {
		case *ssa.MakeInterface:
			for _, r2 := range *x.Referrers() {
				if st, ok := r2.(*ssa.Store); ok {
					// element of the varargs slice of Sprintf / Errorf
					if _, isIdx := st.Addr.(*ssa.IndexAddr); isIdx {
						continue
					}
				}
				return false
			}
		case *ssa.DebugRef:
		default:
			return false
		}
	}
	return true
}

// identifierTested: a comma-ok assertion of the same value (or of another load
// of the same field) to *ast.Identifier whose success edge dominates the use,
// or whose failure edge only leads to failing returns.
func identifierTested(recv ssa.Value, use ssa.Instruction) bool {
	same := func(v ssa.Value) bool {
		if v == recv {
			return true
		}
		l1, ok1 := v.(*ssa.UnOp)
		l2, ok2 := recv.(*ssa.UnOp)
		if ok1 && ok2 {
			f1, ok1 := l1.X.(*ssa.FieldAddr)
			f2, ok2 := l2.X.(*ssa.FieldAddr)
			return ok1 && ok2 && f1.Field == f2.Field && sameBase(f1.X, f2.X)
		}
		return false
	}
	fn := use.Parent()
	for _, b := range fn.Blocks {
		for _, ins := range b.Instrs {
			ta, ok := ins.(*ssa.TypeAssert)
			if !ok || !same(ta.X) {
				continue
			}
			pt, ok := ta.AssertedType.(*types.Pointer)
			if !ok || !isNamed(pt.Elem(), "ast", "Identifier") {
				continue
			}
			if !ta.CommaOk {
				if dominatesInstr(ta, use) {
					return true
				}
				continue
			}
			for _, ref := range *ta.Referrers() {
				ex, ok := ref.(*ssa.Extract)
				if !ok || ex.Index != 1 {
					continue
				}
				for _, r2 := range *ex.Referrers() {
					iff, ok := r2.(*ssa.If)
					if !ok {
						continue
					}
					t, f := iff.Block().Succs[0], iff.Block().Succs[1]
					if len(t.Preds) == 1 && (t == use.Block() || t.Dominates(use.Block())) {
						return true
					}
					if (allReturnsFail(f) || allReturnsNil(f)) && dominatesInstr(ta, use) {
						return true
					}
					// `if !ok { fail }`: successors swapped
					if (allReturnsFail(t) || allReturnsNil(t)) && len(f.Preds) >= 1 && dominatesInstr(ta, use) && (f == use.Block() || f.Dominates(use.Block())) {
						return true
					}
				}
			}
		}
	}
	return false
}

// ---------------------------------------------------------------------------
// R-SWITCHONCE

func init() {
	register(&Rule{ID: "R-SWITCHONCE", Floor: 1, Run: ruleSwitchOnce,
		Text: "The subject of a switch is translated once: the compiler does not emit its code inside the loop over the arms. Emitted once per arm it is evaluated again for every arm that is tried, so a subject with an effect — a host function call — is called several times for one switch, and each arm is compared with a different value."})
}

func ruleSwitchOnce(p *Program, r *Reporter) {
	a := needAnchors(p, r)
	if a == nil {
		return
	}
	fn := a.compile
	key := "compile/case *ast.SwitchExpression/the subject is translated once"
	n := 0
	bad := ""
	for _, b := range fn.Blocks {
		for _, ins := range b.Instrs {
			c, ok := staticCalleeIs(ins, fn)
			if !ok || !strings.Contains(outerCase(p, fn, c.Pos()), "*ast.SwitchExpression") {
				continue
			}
			// the argument is a non-slice field of the switch node itself
			v := c.Call.Args[1]
			for {
				if mi, ok := v.(*ssa.MakeInterface); ok {
					v = mi.X
					continue
				}
				if ci, ok := v.(*ssa.ChangeInterface); ok {
					v = ci.X
					continue
				}
				break
			}
			ld, ok := v.(*ssa.UnOp)
			if !ok {
				continue
			}
			fa, ok := ld.X.(*ssa.FieldAddr)
			if !ok || !isNamed(deref(fa.X.Type()), "ast", "SwitchExpression") {
				continue
			}
			n++
			// inside a loop?
			inLoop := blockReaches(b, b, nil) && func() bool {
				for _, s := range b.Succs {
					if s == b || blockReaches(s, b, nil) {
						return true
					}
				}
				return false
			}()
			if inLoop {
				bad = p.Pos(c.Pos())
			}
		}
	}
	if n == 0 {
		r.Undecided(key, p.Pos(fn.Pos()), "the switch case never compiles a field of the switch node itself")
		return
	}
	if bad != "" {
		r.Fail(key, bad, "the code of the switch subject is emitted inside the loop over the arms, once for every expression of every arm: `switch (next()) { case 5 {…} case 1 {…} }` calls the host function next() once per arm tried, and the second arm is compared with the second result")
		return
	}
	r.OkNT(key, p.Pos(fn.Pos()), fmt.Sprintf("%d compile call(s) on the subject, none inside a loop", n))
}
