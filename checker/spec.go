package main

// Tables transcribed from the property statements and the README language
// definition.  Each table cites the sentence it encodes.  These are the
// oracles the extraction rules compare the code against; they contain no
// source text of the repository.

// C01: "integer arithmetic stays integer, int mixed with float is computed in
// float, strings concatenate and order lexically, == and != compare ...,
// ~= and !~ test a string against a regexp, `in` tests array membership or
// substring"; README "Operators" section lists the spellings.
var specInfix = map[string]string{
	"+": "OpAdd", "-": "OpSub", "*": "OpMul", "/": "OpDiv", "%": "OpMod", "**": "OpPower",
	"<": "OpLess", "<=": "OpLessEqual", ">": "OpGreater", ">=": "OpGreaterEqual",
	"==": "OpEqual", "!=": "OpNotEqual",
	"~=": "OpMatches", "!~": "OpNotMatches", "in": "OpArrayIn",
	"..": "OpRange", "&&": "OpAnd", "||": "OpOr",
	".": "OpIndex", // README: "object.field" is sugar for an index by name
}

// README: "x += 3" means "x = x + 3" (likewise -=, *=, /=): arithmetic
// opcode, then the name constant, then the store.
var specCompound = map[string][]string{
	"+=": {"OpAdd", "OpConstant", "OpSet"},
	"-=": {"OpSub", "OpConstant", "OpSet"},
	"*=": {"OpMul", "OpConstant", "OpSet"},
	"/=": {"OpDiv", "OpConstant", "OpSet"},
}

// C05: "`!` negates a boolean"; C01 unary operators; README: √ is square root.
var specPrefix = map[string]string{"!": "OpBang", "-": "OpMinus", "√": "OpSquareRoot"}

// C15: "`x++`, `x--` ... change the variable x".
var specPostfix = map[string]string{"++": "OpInc", "--": "OpDec"}

// The Go operator each table cell must apply to (left, right), in that order.
var specCellOp = map[string]string{
	"OpAdd": "+", "OpSub": "-", "OpMul": "*", "OpDiv": "/", "OpMod": "%",
	"OpLess": "<", "OpLessEqual": "<=", "OpGreater": ">", "OpGreaterEqual": ">=",
	"OpEqual": "==", "OpNotEqual": "!=",
}

var arithOps = map[string]bool{"OpAdd": true, "OpSub": true, "OpMul": true, "OpDiv": true, "OpMod": true, "OpPower": true}
var compareOps = map[string]bool{"OpLess": true, "OpLessEqual": true, "OpGreater": true, "OpGreaterEqual": true, "OpEqual": true, "OpNotEqual": true}

// Opcodes every numeric table must cover (C01: every operator x every numeric
// path), and the string table.
var numericTableOps = []string{"OpAdd", "OpSub", "OpMul", "OpDiv", "OpMod", "OpPower", "OpLess", "OpLessEqual", "OpGreater", "OpGreaterEqual", "OpEqual", "OpNotEqual"}
var stringTableOps = []string{"OpAdd", "OpLess", "OpLessEqual", "OpGreater", "OpGreaterEqual", "OpEqual", "OpNotEqual", "OpArrayIn"}

// C12: "Operators bind in the language's fixed order - index/call, prefix, %,
// **, * /, + -, comparisons and ~= !~ in, == !=, && ||, range/assignment,
// ternary".  Highest first; tokens in one group bind equally.  Token names are
// the string values of the token.Type constants.
var specPrecedenceChain = [][]string{
	{"[", ".", "("}, // index / call — constrained only to bind at least as tightly as prefix
	{"<prefix>"},
	{"%"},
	{"**"},
	{"*", "/"},
	{"+", "-"},
	{"<", "<=", ">", ">=", "~=", "!~", "in"},
	{"==", "!="},
	{"&&", "||"},
	{"..", "="},
	{"?"},
	{"<lowest>"},
}

// Compound assignments bind like the arithmetic operator they contain
// (README: "x += y" is "x = x + y"; the parser groups `a += b * c` as
// a += (b * c)).  Not part of C12's chain; recorded for information only.
