package main

// Confinement, concurrency and determinism rules: the closed world of external
// references (R-EFFECTS, R-IMPORTS, R-DYNCALLS), package-level state and
// locking (R-GLOBALS, R-LOCK), sources of nondeterminism (R-NONDETSRC,
// R-MAPORDER), hash keys (R-HASHKEY).

import (
	"fmt"
	"go/ast"
	"go/constant"
	"go/token"
	"go/types"
	"sort"
	"strings"

	"golang.org/x/tools/go/ssa"
	"golang.org/x/tools/go/ssa/ssautil"
)

func init() {
	register(&Rule{ID: "R-EFFECTS", Floor: 60, Run: ruleEffects,
		Text: "Every object from outside the module that library code references (function, method, variable, type) is on the allow-list: packages without I/O, fmt's stdout printers and formatters, reflect without dynamic calls, and exactly os.Getenv, time.Now, time.LoadLocation as the property grants."})
	register(&Rule{ID: "R-IMPORTS", Floor: 30, Run: ruleImports,
		Text: "Every Go file of the library, whatever its build constraints, imports only allow-listed packages; no cgo, no //go:linkname, no assembly or C sources."})
	register(&Rule{ID: "R-DYNCALLS", Floor: 9, Run: ruleDynCalls,
		Text: "Every call through a function value is enumerated and its possible callees are functions of the module or functions the host registered: parser parselets, bytecode walker callbacks, and the function table whose only writers are the constructor (module built-ins) and AddFunction (the host)."})
	register(&Rule{ID: "R-GLOBALS", Floor: 8, Run: ruleGlobals,
		Text: "Every package-level variable of the library is either never written after package initialisation (not even through it), or every access to it happens while a package-level mutex is held."})
	register(&Rule{ID: "R-LOCK", Floor: 2, Run: ruleLock,
		Text: "Run holds the evaluator's mutex around Execute on every path; Prepare holds it by defer."})
	register(&Rule{ID: "R-NONDETSRC", Floor: 4, Run: ruleNondetSrc,
		Text: "The library starts no goroutine, has no select with more than one communication case, prints no pointer values (%p) and converts no pointer to an integer; an address obtained from reflection is used for nothing but to look things up by it (key of a set that is never enumerated, equality)."})
	register(&Rule{ID: "R-MAPORDER", Floor: 6, Run: ruleMapOrder,
		Text: "Every iteration over a Go map (range or reflect MapKeys) is order-insensitive (its body only inserts into a map), or only collects into one slice that is sorted before any other use with a comparator that is total on the collected elements, or is listed with its reason."})
	register(&Rule{ID: "R-HASHKEY", Floor: 3, Run: ruleHashKey,
		Text: "Every HashKey() implementation fills both the type component (from the object's own Type()) and the value component, so keys of different types that print alike stay distinct; and wherever the machine takes the key of an object, the object is the one the script supplied on every path — never one the machine made in its place."})
}

// ---------------------------------------------------------------------------
// allow-list (C10: "Its only dealings with the outside world are writing to
// standard output, and reading environment variables, the clock and the
// host-configured time-zone database")

var pureStdPackages = map[string]string{
	"strings": "string manipulation, no I/O", "strconv": "conversions, no I/O",
	"unicode": "tables, no I/O", "unicode/utf8": "encoding, no I/O", "unicode/utf16": "encoding, no I/O",
	"sort": "in-memory sorting", "math": "arithmetic", "math/bits": "arithmetic",
	"bytes": "in-memory buffers", "errors": "error values", "regexp": "in-memory matching", "regexp/syntax": "in-memory",
	"encoding/binary": "in-memory encoding (only ByteOrder methods on byte slices are reachable without an io.Reader/Writer: see io rule)",
	"hash":            "interfaces", "hash/fnv": "in-memory hashing",
	"context": "cancellation signals, no I/O", "sync": "mutexes", "sync/atomic": "atomics",
	"time": "the clock and the time-zone database are granted by the property; the rest is arithmetic on times",
}

var fmtAllowed = map[string]string{
	"Print": "writes to standard output (granted)", "Printf": "writes to standard output (granted)", "Println": "writes to standard output (granted)",
	"Sprint": "formats in memory", "Sprintf": "formats in memory", "Sprintln": "formats in memory",
	"Errorf": "builds an error value", "Stringer": "interface",
}

var osAllowed = map[string]string{"Getenv": "reads an environment variable (granted)"}

var reflectBanned = map[string]string{
	"Call": "calls an arbitrary function value", "CallSlice": "calls an arbitrary function value",
	"Method": "obtains a method value to call", "MethodByName": "obtains a method value to call",
	"NewAt": "forges a pointer", "MakeFunc": "manufactures a function",
}

// classifyExternal: "" = allowed (with reason), otherwise the violation text.
func classifyExternal(obj types.Object, recv types.Type) (reason string, violation string) {
	pk := obj.Pkg()
	if pk == nil {
		return "universe", ""
	}
	path := pk.Path()
	name := obj.Name()
	if why, ok := pureStdPackages[path]; ok {
		return path + ": " + why, ""
	}
	switch path {
	case "fmt":
		if why, ok := fmtAllowed[name]; ok {
			return "fmt." + name + ": " + why, ""
		}
		return "", "fmt." + name + " is not one of the stdout printers / in-memory formatters (it can read standard input or write to an arbitrary io.Writer)"
	case "os":
		if why, ok := osAllowed[name]; ok {
			return "os." + name + ": " + why, ""
		}
		return "", "os." + name + ": the only use of package os the property grants is Getenv (files, processes, standard streams as values are not)"
	case "reflect":
		if why, ok := reflectBanned[name]; ok {
			if _, isFunc := obj.(*types.Func); isFunc {
				return "", "reflect " + name + ": " + why + " (escapes the closed world of callees)"
			}
		}
		return "reflect: inspection of host values only", ""
	case "io":
		// interface methods are judged by the static type of the receiver
		if recv != nil {
			if n, ok := types.Unalias(deref(recv)).(*types.Named); ok && n.Obj().Pkg() != nil && n.Obj().Pkg().Path() == "hash" {
				return "io.Writer.Write on a " + n.Obj().Pkg().Name() + "." + n.Obj().Name() + ": in-memory hashing", ""
			}
		}
		return "", "io." + name + " on a receiver that is not a hash: writes to or reads from an arbitrary stream"
	}
	return "", "package " + path + " is not on the allow-list of the confinement property (files, network, processes, unsafe memory, plugins, logging to other streams… are all outside it)"
}

func ruleEffects(p *Program, r *Reporter) {
	type ref struct {
		obj  types.Object
		recv types.Type
		pos  token.Pos
		n    int
	}
	refs := map[string]*ref{}
	for _, pk := range p.Pkgs {
		if !IsLibPath(pk.PkgPath) {
			continue
		}
		add := func(obj types.Object, recv types.Type, pos token.Pos) {
			if obj == nil || obj.Pkg() == nil {
				return
			}
			path := obj.Pkg().Path()
			if path == Mod || strings.HasPrefix(path, Mod+"/") {
				return
			}
			k := path + "." + obj.Name()
			if f, ok := obj.(*types.Func); ok {
				k = f.FullName()
				if recv != nil {
					k += " on " + typeStr(recv)
				}
			}
			if refs[k] == nil {
				refs[k] = &ref{obj: obj, recv: recv, pos: pos}
			}
			refs[k].n++
		}
		// selections first (they know the receiver)
		selIdents := map[*ast.Ident]bool{}
		for sel, s := range pk.TypesInfo.Selections {
			selIdents[sel.Sel] = true
			add(s.Obj(), s.Recv(), sel.Pos())
		}
		for id, obj := range pk.TypesInfo.Uses {
			if selIdents[id] {
				continue
			}
			if _, isPkg := obj.(*types.PkgName); isPkg {
				continue
			}
			add(obj, nil, id.Pos())
		}
	}
	var keys []string
	for k := range refs {
		keys = append(keys, k)
	}
	sort.Strings(keys)
	for _, k := range keys {
		rf := refs[k]
		why, bad := classifyExternal(rf.obj, rf.recv)
		key := "external " + k
		if bad != "" {
			r.Fail(key, p.Pos(rf.pos), bad+fmt.Sprintf(" (%d reference(s), first here)", rf.n))
		} else {
			r.Ok(key, p.Pos(rf.pos), why)
		}
	}
}

var importAllowed = func() map[string]bool {
	m := map[string]bool{"fmt": true, "os": true, "reflect": true}
	for k := range pureStdPackages {
		m[k] = true
	}
	return m
}()

func ruleImports(p *Program, r *Reporter) {
	files, others, err := scanFiles(p, p.Root)
	if err != nil {
		r.Undecided("scan", "-", err.Error())
		return
	}
	for _, f := range files {
		key := "imports of " + f.Rel
		var bad []string
		for _, im := range f.Imports {
			if im == Mod || strings.HasPrefix(im, Mod+"/") {
				if strings.HasPrefix(im, Mod+"/cmd") {
					bad = append(bad, im+" (the driver is not part of the library)")
				}
				continue
			}
			if !importAllowed[im] {
				bad = append(bad, im)
			}
		}
		switch {
		case f.ParseErr != "":
			r.Undecided(key, f.Rel, "cannot parse: "+f.ParseErr)
		case f.Cgo:
			r.Fail(key, f.Rel, "uses cgo")
		case f.Linkname:
			r.Fail(key, f.Rel, "uses //go:linkname or cgo directives")
		case len(bad) > 0:
			note := ""
			if !f.Typed {
				note = " (file excluded from the default build by a constraint: it is compiled in some other configuration)"
			}
			r.Fail(key, f.Rel, "imports packages outside the confinement allow-list: "+strings.Join(bad, ", ")+note)
		default:
			note := ""
			if !f.Typed {
				note = "not in the default build; checked at the import level"
			}
			r.Ok(key, f.Rel, note)
		}
	}
	for _, o := range others {
		r.Fail("non-Go source "+o, o, "assembly/C/object file in a library package: its effects cannot be analysed")
	}
}

// ---------------------------------------------------------------------------
// R-DYNCALLS

func ruleDynCalls(p *Program, r *Reporter) {
	regs := registrations(p)
	regTypes := map[string]int{}
	for _, rg := range regs {
		if rg.method != nil {
			regTypes[rg.fnType]++
		}
	}
	// writers of the host/built-in function table
	tableField := "environment.Environment.functions"
	var writers []*ssa.Function
	for _, fn := range p.LibFns {
		for _, b := range fn.Blocks {
			for _, ins := range b.Instrs {
				if mu, ok := ins.(*ssa.MapUpdate); ok {
					if u, ok := mu.Map.(*ssa.UnOp); ok && fieldKey(u.X) == tableField {
						writers = append(writers, fn)
					}
				}
			}
		}
	}
	setFn := methodOf(p, "environment", "Environment", "SetFunction")
	writersOK := len(writers) > 0
	for _, w := range writers {
		if w != setFn {
			writersOK = false
			r.Fail("writer of the function table: "+p.FnName(w), p.Pos(w.Pos()), "the table scripts call functions from is written by something other than SetFunction")
		}
	}
	// callers of SetFunction: the constructor (with module functions) and AddFunction
	if setFn != nil {
		for _, fn := range p.LibFns {
			for _, c := range callsTo(fn, setFn) {
				key := siteKey(p, fn, c.Pos(), "registers a function")
				arg := c.Common().Args[2]
				name := p.FnName(fn)
				switch {
				case name == "evalfilter.(*Eval).AddFunction":
					r.Ok(key, p.Pos(c.Pos()), "the host's AddFunction (the property's stated exception)")
				case name == "environment.New":
					mod := false
					if mi, ok := arg.(*ssa.MakeInterface); ok {
						if f, ok := mi.X.(*ssa.Function); ok && fnPkg(f) != nil && IsLibPath(fnPkg(f).Pkg.Path()) {
							mod = true
						}
					}
					if names, _, all := tableRegistrations(p, arg); !mod && all {
						r.OkNT(key, p.Pos(c.Pos()), fmt.Sprintf("an entry of a table of %d built-ins of the module that is never written after initialisation (their effects are covered by R-EFFECTS)", len(names)))
					} else if mod {
						r.Ok(key, p.Pos(c.Pos()), "built-in of the module (its effects are covered by R-EFFECTS)")
					} else {
						r.Fail(key, p.Pos(c.Pos()), "the constructor registers something that is not a function of the module")
					}
				default:
					r.Fail(key, p.Pos(c.Pos()), "a function is registered from "+name+": only the constructor and the host's AddFunction may")
				}
			}
		}
	}
	for _, fn := range p.LibFns {
		for _, b := range fn.Blocks {
			for _, ins := range b.Instrs {
				ci, ok := ins.(ssa.CallInstruction)
				if !ok {
					continue
				}
				cc := ci.Common()
				if cc.IsInvoke() || cc.StaticCallee() != nil {
					continue
				}
				if _, isBuiltin := cc.Value.(*ssa.Builtin); isBuiltin {
					continue
				}
				key := siteKey(p, fn, ci.Pos(), "dynamic call of "+typeStr(cc.Value.Type()))
				// (1) parselet tables
				if n, ok := types.Unalias(cc.Value.Type()).(*types.Named); ok && regTypes[n.Obj().Name()] > 0 {
					r.OkNT(key, p.Pos(ci.Pos()), fmt.Sprintf("parselet table: %d registrations, all methods of the parser", regTypes[n.Obj().Name()]))
					continue
				}
				// (2) the function table: value is a type assertion of GetFunction's result
				fromTable := false
				for _, o := range outerOrigins(cc.Value) {
					if e, ok := o.(*ssa.Extract); ok {
						if c, ok := e.Tuple.(*ssa.Call); ok && c.Call.StaticCallee() != nil && c.Call.StaticCallee().Name() == "GetFunction" {
							fromTable = true
						}
					}
				}
				if fromTable {
					if writersOK {
						r.OkNT(key, p.Pos(ci.Pos()), "function table: written only by SetFunction, called from the constructor (module built-ins) and AddFunction (host)")
					} else {
						r.Fail(key, p.Pos(ci.Pos()), "function table has unexpected writers")
					}
					continue
				}
				// (3) callbacks: parameter of func type; every caller passes a
				// closure or method of the module
				if prm, ok := cc.Value.(*ssa.Parameter); ok {
					okAll, n := callbackArgsAreModule(p, fn, prm, 0)
					if okAll && n > 0 {
						r.OkNT(key, p.Pos(ci.Pos()), fmt.Sprintf("callback parameter: all %d callers pass closures or methods of the module (or plain functions of a standard package that does no I/O)", n))
					} else {
						r.Fail(key, p.Pos(ci.Pos()), "callback parameter whose callers cannot all be resolved to functions of the module")
					}
					continue
				}
				// (4) a table of handler functions kept in a package-level
				// variable that only the package's initialisation fills, with
				// functions of the module
				if g, fns, ok := moduleFuncTable(p, cc.Value); ok {
					r.OkNT(key, p.Pos(ci.Pos()), fmt.Sprintf("handler table %s: written only while the package is initialised, with %d function(s) of the module", g.Name(), len(fns)))
					continue
				}
				// a function literal kept in a local variable and called by that
				// name — also from inside another literal that captured the variable
				if fns, ok := localClosureTargets(cc.Value, 0); ok {
					r.OkNT(key, p.Pos(ci.Pos()), fmt.Sprintf("local variable that only ever holds %d function literal(s) of the module", len(fns)))
					continue
				}
				// closure called directly (defer func(){}() etc.)
				if mc, ok := cc.Value.(*ssa.MakeClosure); ok {
					if f, ok := mc.Fn.(*ssa.Function); ok && fnPkg(f) != nil && IsLibPath(fnPkg(f).Pkg.Path()) {
						r.Ok(key, p.Pos(ci.Pos()), "closure of the module")
						continue
					}
				}
				// a function handed back by a function of the module (the undo of
				// an enter/leave pair): every value it returns in that place is a
				// function literal of the module, or nil
				if fns, ok := functionsHandedBack(cc.Value); ok {
					r.OkNT(key, p.Pos(ci.Pos()), fmt.Sprintf("function value handed back by a function of the module: %d function literal(s) of the module", len(fns)))
					continue
				}
				r.Fail(key, p.Pos(ci.Pos()), "call through a function value whose callees cannot be enumerated: the closed-world argument for confinement breaks here")
			}
		}
	}
}

// localClosureTargets: v is the content of a local variable — the function's
// own, or one of the enclosing function captured by reference — every store
// into which is a function literal of the module.
func localClosureTargets(v ssa.Value, depth int) ([]*ssa.Function, bool) {
	if depth > 3 {
		return nil, false
	}
	for {
		if ct, ok := v.(*ssa.ChangeType); ok {
			v = ct.X
			continue
		}
		break
	}
	fromCell := func(cell ssa.Value) ([]*ssa.Function, bool) {
		al, ok := cell.(*ssa.Alloc)
		if !ok || al.Referrers() == nil {
			return nil, false
		}
		var out []*ssa.Function
		for _, ref := range *al.Referrers() {
			switch x := ref.(type) {
			case *ssa.Store:
				if x.Addr != ssa.Value(al) {
					return nil, false // the cell's address stored somewhere
				}
				val := x.Val
				for {
					if ct, ok := val.(*ssa.ChangeType); ok {
						val = ct.X
						continue
					}
					break
				}
				mc, ok := val.(*ssa.MakeClosure)
				if !ok {
					if f, isF := val.(*ssa.Function); isF && fnPkg(f) != nil && IsLibPath(fnPkg(f).Pkg.Path()) {
						out = append(out, f)
						continue
					}
					return nil, false
				}
				f, ok := mc.Fn.(*ssa.Function)
				if !ok || fnPkg(f) == nil || !IsLibPath(fnPkg(f).Pkg.Path()) {
					return nil, false
				}
				out = append(out, f)
			case *ssa.UnOp, *ssa.MakeClosure, *ssa.DebugRef:
				// loads, and captures by other literals (which can only load or store it: seen there)
			default:
				return nil, false
			}
		}
		return out, len(out) > 0
	}
	ld, ok := v.(*ssa.UnOp)
	if !ok || ld.Op != token.MUL {
		return nil, false
	}
	switch cell := ld.X.(type) {
	case *ssa.Alloc:
		return fromCell(cell)
	case *ssa.FreeVar:
		fn := cell.Parent()
		idx := -1
		for i, fv := range fn.FreeVars {
			if fv == cell {
				idx = i
			}
		}
		par := fn.Parent()
		if idx < 0 || par == nil {
			return nil, false
		}
		var out []*ssa.Function
		n := 0
		for _, b := range par.Blocks {
			for _, ins := range b.Instrs {
				mc, ok := ins.(*ssa.MakeClosure)
				if !ok || mc.Fn != ssa.Value(fn) || idx >= len(mc.Bindings) {
					continue
				}
				n++
				fs, ok := fromCell(mc.Bindings[idx])
				if !ok {
					return nil, false
				}
				out = append(out, fs...)
			}
		}
		// stores made through the captured variable inside the literal itself
		if cell.Referrers() != nil {
			for _, ref := range *cell.Referrers() {
				if st, ok := ref.(*ssa.Store); ok && st.Addr == ssa.Value(cell) {
					return nil, false
				}
			}
		}
		return out, n > 0 && len(out) > 0
	}
	return nil, false
}

// callbackArgsAreModule: every call of fn passes, for parameter prm, a module
// closure/method/function, or forwards its own callback parameter (followed
// recursively).
func callbackArgsAreModule(p *Program, fn *ssa.Function, prm *ssa.Parameter, depth int) (bool, int) {
	if depth > 4 {
		return false, 0
	}
	idx := -1
	for i, q := range fn.Params {
		if q == prm {
			idx = i
		}
	}
	if idx < 0 {
		return false, 0
	}
	n := 0
	ok := true
	for _, caller := range p.Fns {
		for _, c := range callsTo(caller, fn) {
			arg := c.Common().Args[idx]
			for {
				if ct, isCT := arg.(*ssa.ChangeType); isCT {
					arg = ct.X
					continue
				}
				break
			}
			switch x := arg.(type) {
			case *ssa.MakeClosure:
				f, isF := x.Fn.(*ssa.Function)
				inMod := isF && fnPkg(f) != nil && strings.HasPrefix(fnPkg(f).Pkg.Path(), Mod)
				if isF && !inMod && f.Object() != nil && f.Object().Pkg() != nil && strings.HasPrefix(f.Object().Pkg().Path(), Mod) {
					inMod = true // bound-method wrapper of a module method
				}
				if !inMod {
					ok = false
				}
				n++
			case *ssa.Function:
				// a function of the module — or a plain function of one of the
				// standard packages that do no I/O (strings.ToLower handed to a
				// helper): what it may do is R-EFFECTS' business, and a function of
				// such a package calls nothing of the host's
				switch {
				case fnPkg(x) != nil && strings.HasPrefix(fnPkg(x).Pkg.Path(), Mod):
				case x.Pkg != nil && pureStdPackages[x.Pkg.Pkg.Path()] != "" && x.Signature.Recv() == nil && x.Pkg.Pkg.Path() != "sort" && x.Pkg.Pkg.Path() != "sync":
				default:
					ok = false
				}
				n++
			case *ssa.Parameter:
				o2, n2 := callbackArgsAreModule(p, caller, x, depth+1)
				if !o2 {
					ok = false
				}
				n += n2
			default:
				ok = false
			}
		}
	}
	return ok, n
}

// ---------------------------------------------------------------------------
// R-GLOBALS / R-LOCK

func isInitFn(fn *ssa.Function) bool {
	return fn.Name() == "init" || strings.HasPrefix(fn.Name(), "init#") || fn.Synthetic != ""
}

func ruleGlobals(p *Program, r *Reporter) {
	type glob struct {
		g      *ssa.Global
		writes []ssa.Instruction
		reads  []ssa.Instruction
	}
	globs := map[*ssa.Global]*glob{}
	var order []*ssa.Global
	for _, path := range libPkgs {
		sp := p.SSAPkg[path]
		if sp == nil {
			continue
		}
		var names []string
		for n, m := range sp.Members {
			if _, ok := m.(*ssa.Global); ok && !strings.HasPrefix(n, "init$") {
				names = append(names, n)
			}
		}
		sort.Strings(names)
		for _, n := range names {
			g := sp.Members[n].(*ssa.Global)
			globs[g] = &glob{g: g}
			order = append(order, g)
		}
	}
	// mutexes: globals of type sync.Mutex / RWMutex
	isMutex := func(g *ssa.Global) bool {
		return isStdNamed(deref(g.Type()), "sync", "Mutex") || isStdNamed(deref(g.Type()), "sync", "RWMutex")
	}
	// all functions of the library including package initialisers
	var fns []*ssa.Function
	fns = append(fns, p.LibFns...)
	for _, path := range libPkgs {
		if sp := p.SSAPkg[path]; sp != nil {
			if ini := sp.Func("init"); ini != nil {
				fns = append(fns, ini)
			}
		}
	}
	for _, fn := range fns {
		for _, b := range fn.Blocks {
			for _, ins := range b.Instrs {
				// direct store to the variable
				if st, ok := ins.(*ssa.Store); ok {
					if g, ok := st.Addr.(*ssa.Global); ok && globs[g] != nil && !isInitFn(fn) {
						globs[g].writes = append(globs[g].writes, ins)
					}
				}
				// any load of the variable is an access; what is done through the
				// loaded value decides whether it is a write
				if u, ok := ins.(*ssa.UnOp); ok && u.Op == token.MUL {
					g, ok := u.X.(*ssa.Global)
					if !ok || globs[g] == nil {
						continue
					}
					if !isInitFn(fn) {
						globs[g].reads = append(globs[g].reads, ins)
					}
					for _, ref := range liveRefs(u) {
						// a method invoked on the object the variable holds (hasher.Write(…),
						// buffer.Reset()): the object is shared by every evaluator in the
						// process, and unless the method is known not to change it the call
						// counts as a write
						if ci, ok := ref.(ssa.CallInstruction); ok && !isInitFn(fn) {
							cc := ci.Common()
							recv := cc.IsInvoke() && cc.Value == ssa.Value(u)
							if cal := cc.StaticCallee(); cal != nil && cal.Signature.Recv() != nil && len(cc.Args) > 0 && cc.Args[0] == ssa.Value(u) {
								if fnPkg(cal) != nil && strings.HasPrefix(fnPkg(cal).Pkg.Path(), Mod) {
									recv = storesThroughReceiver(cal, map[*ssa.Function]bool{})
								} else {
									_, isPtr := cal.Signature.Recv().Type().Underlying().(*types.Pointer)
									recv = isPtr && !isStdNamed(deref(cal.Signature.Recv().Type()), "regexp", "Regexp") && !isStdNamed(deref(cal.Signature.Recv().Type()), "time", "Location") && !isStdNamed(deref(cal.Signature.Recv().Type()), "strings", "Replacer") // documented as safe for concurrent use
								}
							}
							if recv {
								globs[g].writes = append(globs[g].writes, ci)
							}
						}
						// what the variable refers to (a slice, a map, a pointer) handed
						// to a function as an ordinary argument: the callee can write
						// through it — binary.BigEndian.PutUint16(buf, v), copy(buf, …),
						// append(buf, …) — unless it is known only to read
						if ci, ok := ref.(ssa.CallInstruction); ok && !isInitFn(fn) && sharedArgWritten(ci, u) {
							globs[g].writes = append(globs[g].writes, ci)
						}
						switch x := ref.(type) {
						case *ssa.MapUpdate:
							if x.Map == ssa.Value(u) && !isInitFn(fn) {
								globs[g].writes = append(globs[g].writes, x)
							}
						case *ssa.IndexAddr, *ssa.FieldAddr:
							for _, r2 := range liveRefs(x.(ssa.Value)) {
								if st, ok := r2.(*ssa.Store); ok && st.Addr == x.(ssa.Value) && !isInitFn(fn) {
									globs[g].writes = append(globs[g].writes, st)
								}
							}
						case *ssa.Call:
							if bi, ok := x.Call.Value.(*ssa.Builtin); ok && (bi.Name() == "delete" || bi.Name() == "clear") && !isInitFn(fn) {
								globs[g].writes = append(globs[g].writes, x)
							}
						}
					}
				}
				// the variable's address handed to a method or function (fieldsPool.Get(),
				// cache.Store(…)): the callee may write through it, and what it hands back
				// is shared between every evaluator in the process
				if cc := callOf(ins); cc != nil && !isInitFn(fn) {
					for _, a := range cc.Args {
						if g, ok := a.(*ssa.Global); ok && globs[g] != nil && !isMutex(g) {
							globs[g].writes = append(globs[g].writes, ins)
						}
					}
				}
				// element/field address taken directly from the global (arrays, structs)
				switch x := ins.(type) {
				case *ssa.IndexAddr:
					if g, ok := x.X.(*ssa.Global); ok && globs[g] != nil && !isInitFn(fn) {
						for _, r2 := range liveRefs(x) {
							if st, ok := r2.(*ssa.Store); ok && st.Addr == ssa.Value(x) {
								globs[g].writes = append(globs[g].writes, st)
							}
						}
					}
				case *ssa.FieldAddr:
					if g, ok := x.X.(*ssa.Global); ok && globs[g] != nil && !isInitFn(fn) && !isMutex(g) {
						for _, r2 := range liveRefs(x) {
							if st, ok := r2.(*ssa.Store); ok && st.Addr == ssa.Value(x) {
								globs[g].writes = append(globs[g].writes, st)
							}
						}
					}
				}
			}
		}
	}
	for _, g := range order {
		gl := globs[g]
		key := "package variable " + shortPkg(g.Pkg.Pkg.Path()) + "." + g.Name()
		if isMutex(g) {
			r.Ok(key, p.Pos(g.Pos()), "a mutex")
			continue
		}
		if len(gl.writes) == 0 {
			r.OkNT(key, p.Pos(g.Pos()), fmt.Sprintf("never written after package initialisation (%d read(s))", len(gl.reads)))
			continue
		}
		// an object that carries its own mutex (`type cache struct { lock
		// sync.Mutex; entries map[…]… }`): fine when the variable is only used
		// as the receiver of the type's methods, and those touch the other
		// fields only while the receiver's mutex is held and do not let what
		// the fields refer to get out
		if why, ok := selfGuardedObject(p, g, fns); ok {
			r.OkNT(key, p.Pos(g.Pos()), why)
			continue
		}
		// every access under a held package-level mutex
		bad := ""
		accesses := append(append([]ssa.Instruction{}, gl.reads...), gl.writes...)
		for _, acc := range accesses {
			if !heldAt(acc, isMutex) {
				bad = p.Pos(acc.Pos()) + " in " + p.FnName(acc.Parent())
				break
			}
		}
		// ... and what the variable refers to is reachable through the variable
		// only: a map (slice, pointer) that is also stored in an object — or came
		// from one — is used through that object without the mutex, and is shared
		// by everything that holds such an object
		if bad == "" {
			isRef := func(t types.Type) bool {
				switch t.Underlying().(type) {
				case *types.Map, *types.Slice, *types.Pointer, *types.Chan, *types.Signature, *types.Interface:
					return true
				}
				return false
			}
			leak := ""
			if isRef(deref(g.Type())) {
				for _, acc := range gl.reads {
					u, ok := acc.(*ssa.UnOp)
					if !ok {
						continue
					}
					for _, ref := range liveRefs(u) {
						switch x := ref.(type) {
						case *ssa.Store:
							if x.Val == ssa.Value(u) {
								leak = "its value is stored elsewhere (" + p.Pos(x.Pos()) + " in " + p.FnName(x.Parent()) + "): what it refers to is then used through that place too, without the mutex, by whoever holds it"
							}
						case *ssa.Return:
							leak = "its value is returned to a caller (" + p.Pos(x.Pos()) + " in " + p.FnName(x.Parent()) + ") who uses it without the mutex"
						case *ssa.MakeInterface, *ssa.MakeClosure:
							leak = "its value is wrapped and handed on (" + p.Pos(ref.Pos()) + " in " + p.FnName(ref.Parent()) + ")"
						case ssa.CallInstruction:
							cc := x.Common()
							if _, isBuiltin := cc.Value.(*ssa.Builtin); isBuiltin {
								continue
							}
							for _, a := range cc.Args {
								if a == ssa.Value(u) {
									if cal := cc.StaticCallee(); cal != nil && cal.Signature.Recv() != nil && len(cc.Args) > 0 && cc.Args[0] == ssa.Value(u) {
										continue // a method of the object itself: judged above
									}
									leak = "its value is passed to a function (" + p.Pos(x.Pos()) + " in " + p.FnName(x.Parent()) + ") that may keep it"
								}
							}
						}
					}
				}
				for _, w := range gl.writes {
					st, ok := w.(*ssa.Store)
					if !ok || st.Addr != ssa.Value(g) {
						continue
					}
					fresh := true
					for _, o := range origins(st.Val) {
						switch x := o.(type) {
						case *ssa.MakeMap, *ssa.MakeSlice, *ssa.MakeChan, *ssa.Alloc, *ssa.Const, *ssa.Call, *ssa.MakeClosure, *ssa.Function:
						case *ssa.UnOp:
							if gg, ok := x.X.(*ssa.Global); ok && gg == g {
								continue
							}
							fresh = false
						default:
							fresh = false
						}
					}
					if !fresh {
						leak = "it is assigned a value that something else holds as well (" + p.Pos(st.Pos()) + " in " + p.FnName(st.Parent()) + ": a field, a parameter): what it refers to is then changed through that other holder without the mutex, and every evaluator that is given the variable's value sees those changes"
					}
				}
			}
			if leak != "" {
				r.Fail(key, p.Pos(g.Pos()), "this package-level variable is guarded by a mutex, but "+leak+" — state of one evaluator (a function its host registered, say) becomes visible to, and races with, every other evaluator in the process")
				continue
			}
		}
		if bad == "" {
			r.OkNT(key, p.Pos(g.Pos()), fmt.Sprintf("written after initialisation; all %d access(es) are made while a package-level mutex is held, and what it refers to is reachable through it only", len(accesses)))
		} else {
			extra := ""
			if isStdNamed(deref(g.Type()), "sync", "Pool") || isStdNamed(deref(g.Type()), "sync", "Map") {
				extra = " — the variable synchronises its own operations, but the objects that travel through it are shared between all evaluators of the process: an object put back while a run still holds a reference to it (a nested interpreter run, a value that escaped into a result) is handed to another evaluator, which then reads the first one's data and writes into it"
			}
			r.Fail(key, p.Pos(g.Pos()), "this package-level variable is written while scripts run and is accessed without a package-level mutex held (first at "+bad+"): two evaluators used from different goroutines race on it (concurrent map access is fatal)"+extra)
		}
	}
}

// storesThroughReceiver: the method (or a method of the same receiver it
// calls) assigns a field or element reachable from its receiver.
func storesThroughReceiver(fn *ssa.Function, seen map[*ssa.Function]bool) bool {
	if seen[fn] || len(fn.Params) == 0 {
		return false
	}
	seen[fn] = true
	recv := ssa.Value(fn.Params[0])
	for _, b := range fn.Blocks {
		for _, ins := range b.Instrs {
			switch x := ins.(type) {
			case *ssa.Store:
				if _, isAlloc := x.Addr.(*ssa.Alloc); !isAlloc && derivedFromArgs(x.Addr, recv, 0) {
					return true
				}
			case *ssa.MapUpdate:
				if derivedFromArgs(x.Map, recv, 0) {
					return true
				}
			case *ssa.Call:
				if cal := x.Call.StaticCallee(); cal != nil && len(x.Call.Args) > 0 && x.Call.Args[0] == recv && cal.Signature.Recv() != nil {
					if storesThroughReceiver(cal, seen) {
						return true
					}
				}
			}
		}
	}
	return false
}

// sharedArgWritten: the call is handed v — a slice, map or pointer — as an
// argument other than its receiver, and may write through it.
func sharedArgWritten(ci ssa.CallInstruction, v ssa.Value) bool {
	switch v.Type().Underlying().(type) {
	case *types.Slice, *types.Map, *types.Pointer:
	default:
		return false
	}
	cc := ci.Common()
	idx := -1
	for i, a := range cc.Args {
		if a == v {
			idx = i
		}
	}
	if idx < 0 {
		return false
	}
	if bi, ok := cc.Value.(*ssa.Builtin); ok {
		switch bi.Name() {
		case "len", "cap", "print", "println":
			return false
		case "append", "copy":
			return idx == 0 // the destination; as the source it is only read
		}
		return true
	}
	if cc.IsInvoke() {
		// a method of an interface value with the shared object as an argument:
		// readers of byte orders and hashes aside, assume it writes
		switch cc.Method.Name() {
		case "Uint16", "Uint32", "Uint64", "Write", "WriteString", "String":
			return false
		}
		return true
	}
	cal := cc.StaticCallee()
	if cal == nil {
		return true
	}
	if cal.Signature.Recv() != nil && idx == 0 {
		return false // the receiver: judged by the caller of this function
	}
	if fnPkg(cal) != nil && strings.HasPrefix(fnPkg(cal).Pkg.Path(), Mod) {
		if idx >= len(cal.Params) {
			return true
		}
		prm := ssa.Value(cal.Params[idx])
		for _, b := range cal.Blocks {
			for _, ins := range b.Instrs {
				switch x := ins.(type) {
				case *ssa.Store:
					if _, isAlloc := x.Addr.(*ssa.Alloc); !isAlloc && derivedFromArgs(x.Addr, prm, 0) {
						return true
					}
				case *ssa.MapUpdate:
					if derivedFromArgs(x.Map, prm, 0) {
						return true
					}
				case ssa.CallInstruction:
					if sharedArgWritten(x, prm) {
						return true
					}
				}
			}
		}
		return false
	}
	// the standard library: packages whose functions only read their slice,
	// map and pointer arguments (documented)
	if cal.Pkg != nil {
		switch cal.Pkg.Pkg.Path() {
		case "strings", "fmt", "strconv", "unicode", "unicode/utf8", "regexp", "errors", "math", "time", "reflect":
			return false
		case "bytes":
			switch cal.Name() {
			case "Equal", "Compare", "Contains", "Index", "HasPrefix", "HasSuffix", "IndexByte", "Count":
				return false
			}
		case "sort":
			if strings.HasPrefix(cal.Name(), "Search") {
				return false
			}
		}
	}
	return true
}

// heldAt: forward must-analysis of "some package-level mutex is held" at ins.
func heldAt(at ssa.Instruction, isMutex func(*ssa.Global) bool) bool {
	return heldAtBy(at, func(v ssa.Value) bool {
		g, ok := v.(*ssa.Global)
		return ok && isMutex(g)
	})
}

// heldAtBy: forward must-analysis of "a mutex for which isLock holds is held" at ins.
func heldAtBy(at ssa.Instruction, isLock func(ssa.Value) bool) bool {
	fn := at.Parent()
	lockOp := func(ins ssa.Instruction) (lock, unlock bool) {
		c, ok := ins.(*ssa.Call)
		if !ok {
			return
		}
		cal := c.Call.StaticCallee()
		if cal == nil || len(c.Call.Args) == 0 {
			return
		}
		if !isLock(c.Call.Args[0]) {
			return
		}
		switch cal.Name() {
		case "Lock", "RLock":
			return true, false
		case "Unlock", "RUnlock":
			return false, true
		}
		return
	}
	in := map[*ssa.BasicBlock]bool{}
	out := map[*ssa.BasicBlock]bool{}
	for _, b := range fn.Blocks {
		in[b], out[b] = true, true
	}
	for changed := true; changed; {
		changed = false
		for _, b := range fn.Blocks {
			ni := true
			if b == fn.Blocks[0] || len(b.Preds) == 0 {
				ni = false
			} else {
				for _, pd := range b.Preds {
					if !out[pd] {
						ni = false
					}
				}
			}
			s := ni
			for _, ins := range b.Instrs {
				if l, u := lockOp(ins); l {
					s = true
				} else if u {
					s = false
				}
			}
			if ni != in[b] || s != out[b] {
				in[b], out[b] = ni, s
				changed = true
			}
		}
	}
	s := in[at.Block()]
	for _, ins := range at.Block().Instrs {
		if ins == at {
			return s
		}
		if l, u := lockOp(ins); l {
			s = true
		} else if u {
			s = false
		}
	}
	return s
}

func ruleLock(p *Program, r *Reporter) {
	a := needAnchors(p, r)
	if a == nil {
		return
	}
	isEvalMutexOp := func(ins ssa.Instruction, name string) bool {
		cc := callOf(ins)
		if cc == nil || cc.StaticCallee() == nil || cc.StaticCallee().Name() != name || len(cc.Args) == 0 {
			return false
		}
		return fieldKey(cc.Args[0]) == "evalfilter.Eval.mutex"
	}
	// Run
	var exCall *ssa.Call
	for _, c := range callsTo(a.run, a.execute) {
		exCall, _ = c.(*ssa.Call)
	}
	if exCall == nil {
		r.Undecided("Run calls Execute", p.Pos(a.run.Pos()), "no direct call")
		return
	}
	locked := false
	for _, b := range a.run.Blocks {
		for _, ins := range b.Instrs {
			if _, isDefer := ins.(*ssa.Defer); !isDefer && isEvalMutexOp(ins, "Lock") && dominatesInstr(ins, exCall) {
				// no unlock between
				relocked := true
				walkForward(ins, func(i2 ssa.Instruction) bool {
					if i2 == ssa.Instruction(exCall) {
						return true
					}
					if isEvalMutexOp(i2, "Unlock") {
						relocked = false
					}
					return false
				})
				if relocked {
					locked = true
				}
			}
		}
	}
	// released on every path after Execute (explicitly or by defer)
	released := true
	deferred := false
	for _, b := range a.run.Blocks {
		for _, ins := range b.Instrs {
			if d, ok := ins.(*ssa.Defer); ok && isEvalMutexOp(d, "Unlock") && dominatesInstr(d, exCall) {
				deferred = true
			}
		}
	}
	if !deferred {
		seen := map[*ssa.BasicBlock]bool{}
		var walk func(b *ssa.BasicBlock, i int)
		walk = func(b *ssa.BasicBlock, i int) {
			for ; i < len(b.Instrs); i++ {
				if isEvalMutexOp(b.Instrs[i], "Unlock") {
					return
				}
				if _, ok := b.Instrs[i].(*ssa.Return); ok {
					released = false
					return
				}
			}
			for _, s := range b.Succs {
				if !seen[s] {
					seen[s] = true
					walk(s, 0)
				}
			}
		}
		walk(exCall.Block(), instrIndex(exCall)+1)
	}
	r.Check(locked, "Run holds the evaluator's mutex around Execute", p.Pos(exCall.Pos()), "Lock dominates the call with no Unlock in between", "Run calls Execute without holding the evaluator's mutex: concurrent Run calls on one evaluator race on the machine's stack, fields and scopes")
	r.Check(released, "Run releases the mutex on every path", p.Pos(exCall.Pos()), "Unlock on every path after Execute (Execute cannot unwind past it: R-RECOVER)", "some path through Run returns with the evaluator's mutex still held: the next Run blocks for ever")
	// Prepare: Lock then deferred Unlock before anything else of substance
	var lockIns, deferIns ssa.Instruction
	for _, b := range a.prepare.Blocks {
		for _, ins := range b.Instrs {
			if _, isDefer := ins.(*ssa.Defer); isDefer && isEvalMutexOp(ins, "Unlock") {
				deferIns = ins
			} else if isEvalMutexOp(ins, "Lock") {
				lockIns = ins
			}
		}
	}
	okPrep := lockIns != nil && deferIns != nil && lockIns.Block() == a.prepare.Blocks[0] && deferIns.Block() == a.prepare.Blocks[0]
	r.Check(okPrep, "Prepare holds the mutex by defer", p.Pos(a.prepare.Pos()), "Lock and deferred Unlock in the entry block", "Prepare does not take the evaluator's mutex for its whole body: preparing while another goroutine runs the evaluator races on the machine")
}

// ---------------------------------------------------------------------------
// R-NONDETSRC

const nondetExample = `package t
import "fmt"
import "runtime/debug"
func f(ch, ch2 chan int, p *int) string {
	_ = debug.Stack()
	go func() {}()
	select {
	case <-ch:
	case <-ch2:
	}
	return fmt.Sprintf("%p", p)
}
`

// addressSources: calls whose result contains memory addresses, goroutine
// numbers or process identity.
var addressSources = map[string]bool{
	"runtime/debug.Stack": true, "runtime/debug.PrintStack": true, "runtime.Stack": true,
	"runtime.Caller": true, "runtime.Callers": true, "runtime.NumGoroutine": true,
	"os.Getpid": true, "os.Getppid": true, "os.Hostname": true, "os.Getwd": true,
	"(reflect.Value).Pointer": true, "(reflect.Value).UnsafePointer": true, "(reflect.Value).UnsafeAddr": true,
}

type nondetHit struct {
	kind string
	pos  token.Pos
}

func nondetHits(fn *ssa.Function) []nondetHit {
	var out []nondetHit
	for _, b := range fn.Blocks {
		for _, ins := range b.Instrs {
			switch x := ins.(type) {
			case *ssa.Go:
				out = append(out, nondetHit{"go statement", x.Pos()})
			case *ssa.Select:
				if len(x.States) > 1 {
					out = append(out, nondetHit{"select with several communication cases", x.Pos()})
				}
			case *ssa.Convert:
				if b, ok := x.Type().Underlying().(*types.Basic); ok && (b.Kind() == types.Uintptr || b.Kind() == types.UnsafePointer) {
					if _, isPtr := x.X.Type().Underlying().(*types.Pointer); isPtr || b.Kind() == types.UnsafePointer {
						out = append(out, nondetHit{"pointer converted to an integer / unsafe pointer", x.Pos()})
					}
				}
			case *ssa.Call:
				if x.Call.StaticCallee() != nil && addressSources[calleeFullName(&x.Call)] {
					if identityOnly(x, 0) && !keysEnumerated(fn.Prog, x) {
						continue
					}
					out = append(out, nondetHit{"stack trace, goroutine or process identity (" + calleeFullName(&x.Call) + ")", x.Pos()})
				}
				for _, a := range x.Call.Args {
					if c, ok := a.(*ssa.Const); ok && c.Value != nil && c.Value.Kind() == constant.String {
						if strings.Contains(constant.StringVal(c.Value), "%p") {
							out = append(out, nondetHit{"%p in a format string", x.Pos()})
						}
					}
				}
			}
		}
	}
	return out
}

// identityOnly: the value is used for nothing but to look things up by it —
// as the key of a map (insert, test, delete), in an equality test, or as a
// field of a local struct which is itself only used so.  An address used this
// way decides whether two things are the same thing, and never reaches a
// result or a printed form.
func identityOnly(v ssa.Value, depth int) bool {
	if depth > 3 || v.Referrers() == nil || len(*v.Referrers()) == 0 {
		return false
	}
	for _, ref := range *v.Referrers() {
		switch x := ref.(type) {
		case *ssa.DebugRef:
		case *ssa.MapUpdate:
			if x.Key != v || x.Value == v {
				return false
			}
		case *ssa.Lookup:
			if x.Index != v {
				return false
			}
		case *ssa.BinOp:
			if x.Op != token.EQL && x.Op != token.NEQ {
				return false
			}
		case *ssa.Call:
			if b, ok := x.Call.Value.(*ssa.Builtin); ok && b.Name() == "delete" {
				continue
			}
			// handed to a function of the module that uses it in the same way
			g := x.Call.StaticCallee()
			if g == nil || fnPkg(g) == nil || !IsLibPath(fnPkg(g).Pkg.Path()) || len(g.Blocks) == 0 || depth > 2 {
				return false
			}
			for i, arg := range x.Call.Args {
				if arg == v && (i >= len(g.Params) || !identityOnly(g.Params[i], depth+1)) {
					return false
				}
			}
		case *ssa.Defer:
			if b, ok := x.Call.Value.(*ssa.Builtin); !ok || b.Name() != "delete" {
				return false
			}
		case *ssa.Return:
			// handed back to the callers (every one a direct call): used in the
			// same way there
			fn := x.Parent()
			if curProgram == nil || fn == nil || depth > 2 {
				return false
			}
			sites := staticCallSites(curProgram, fn)
			if len(sites) == 0 || functionUsedAsValue(curProgram, fn) {
				return false
			}
			for i, res := range x.Results {
				if res != v {
					continue
				}
				for _, site := range sites {
					cv, ok := site.(*ssa.Call)
					if !ok {
						return false
					}
					if len(x.Results) == 1 {
						if !identityOnly(cv, depth+1) {
							return false
						}
						continue
					}
					for _, r2 := range *cv.Referrers() {
						if ex, ok := r2.(*ssa.Extract); ok && ex.Index == i && len(*ex.Referrers()) > 0 && !identityOnly(ex, depth+1) {
							return false
						}
					}
				}
			}
		case *ssa.Store:
			// put into a list (the argument array of an append): fine when
			// every element ever read out of a list of that element type is
			// itself used only for identity
			if ia, isIA := x.Addr.(*ssa.IndexAddr); isIA && x.Val == v && curProgram != nil && depth <= 2 {
				if _, isArr := ia.X.(*ssa.Alloc); isArr && listReadsIdentityOnly(curProgram, v.Type(), depth+1) {
					continue
				}
				return false
			}
			fa, ok := x.Addr.(*ssa.FieldAddr)
			if !ok || x.Val != v {
				return false
			}
			al, ok := fa.X.(*ssa.Alloc)
			if !ok || al.Referrers() == nil {
				return false
			}
			for _, r2 := range *al.Referrers() {
				switch y := r2.(type) {
				case *ssa.FieldAddr:
					for _, r3 := range *y.Referrers() {
						if _, ok := r3.(*ssa.Store); !ok {
							return false
						}
					}
				case *ssa.UnOp:
					if y.Op != token.MUL || !identityOnly(y, depth+1) {
						return false
					}
				case *ssa.MakeClosure:
					// captured by a function literal (the undo that removes the
					// key again): what the literal does with it counts
					body, ok := y.Fn.(*ssa.Function)
					if !ok {
						return false
					}
					for i, b := range y.Bindings {
						if b != ssa.Value(al) || i >= len(body.FreeVars) {
							continue
						}
						fv := body.FreeVars[i]
						if fv.Referrers() == nil {
							continue
						}
						for _, r4 := range *fv.Referrers() {
							ld, ok := r4.(*ssa.UnOp)
							if !ok || ld.Op != token.MUL || !identityOnly(ld, depth+1) {
								return false
							}
						}
					}
				case *ssa.DebugRef:
				default:
					return false
				}
			}
		default:
			return false
		}
	}
	return true
}

// keysEnumerated: some loop of the library ranges over a map keyed by the type
// the address was put into (the keys would then be visible).
func keysEnumerated(prog *ssa.Program, call *ssa.Call) bool {
	var keyTypes []types.Type
	var collect func(v ssa.Value, d int)
	collect = func(v ssa.Value, d int) {
		if d > 3 || v.Referrers() == nil {
			return
		}
		for _, ref := range *v.Referrers() {
			switch x := ref.(type) {
			case *ssa.MapUpdate:
				keyTypes = append(keyTypes, x.Map.Type().Underlying().(*types.Map).Key())
			case *ssa.Store:
				if fa, ok := x.Addr.(*ssa.FieldAddr); ok {
					if al, ok := fa.X.(*ssa.Alloc); ok && al.Referrers() != nil {
						for _, r2 := range *al.Referrers() {
							if ld, ok := r2.(*ssa.UnOp); ok {
								collect(ld, d+1)
							}
						}
					}
				}
			}
		}
	}
	collect(call, 0)
	for fn := range ssautil.AllFunctions(prog) {
		if fn.Pkg == nil || !IsLibPath(fn.Pkg.Pkg.Path()) {
			continue
		}
		for _, b := range fn.Blocks {
			for _, ins := range b.Instrs {
				rg, ok := ins.(*ssa.Range)
				if !ok {
					continue
				}
				mt, ok := rg.X.Type().Underlying().(*types.Map)
				if !ok {
					continue
				}
				for _, kt := range keyTypes {
					if types.Identical(mt.Key(), kt) {
						return true
					}
				}
			}
		}
	}
	return false
}

func ruleNondetSrc(p *Program, r *Reporter) {
	n := 0
	for _, fn := range p.LibFns {
		for _, h := range nondetHits(fn) {
			n++
			r.Fail(siteKey(p, fn, h.pos, h.kind), p.Pos(h.pos), h.kind+" in library code: results or printed forms can depend on scheduling or on memory addresses")
		}
	}
	// self-test on the built-in example: all three matchers must fire
	sp := buildExample(nondetExample)
	kinds := map[string]bool{}
	if sp != nil {
		for _, m := range sp.Members {
			if f, ok := m.(*ssa.Function); ok {
				for _, h := range nondetHits(f) {
					kinds[h.kind] = true
				}
				for _, an := range f.AnonFuncs {
					for _, h := range nondetHits(an) {
						kinds[h.kind] = true
					}
				}
			}
		}
	}
	for _, k := range []string{"go statement", "select with several communication cases", "%p in a format string", "stack trace, goroutine or process identity (runtime/debug.Stack)"} {
		if kinds[k] {
			r.OkNT("matcher for "+k, "-", fmt.Sprintf("fires on the built-in positive example; %d hit(s) in the library", n))
		} else {
			r.Undecided("matcher for "+k, "-", "the matcher did not fire on its built-in positive example")
		}
	}
	// randomness packages are excluded by the import allow-list; state it
	rnd := false
	for _, pk := range p.Pkgs {
		if !IsLibPath(pk.PkgPath) {
			continue
		}
		for im := range pk.Imports {
			if im == "math/rand" || im == "math/rand/v2" || im == "crypto/rand" {
				rnd = true
				r.Fail("import of "+im+" in "+shortPkg(pk.PkgPath), "-", "a source of randomness is imported by library code")
			}
		}
	}
	if !rnd {
		r.Ok("no randomness package imported", "-", "math/rand, math/rand/v2, crypto/rand absent from every library package")
	}
}

// ---------------------------------------------------------------------------
// R-MAPORDER

// mapOrderTable: loops that are neither insert-only nor collect-then-sort,
// keyed by function, with the reason they are order-insensitive.
var mapOrderTable = map[string]string{
	"vm.New": "each iteration optimizes one function's bytecode (the machine's own bytecode is saved and restored around it) and inserts the result under the same name into a fresh map: iterations are independent and the loop runs to exhaustion (checked); the DEBUG trace line is printed per iteration in map order — diagnostic output, outside the property",
}

// rebuildsFunctionTable: the loop ranges over a table of user-defined functions
// and stores every entry into another table of the same type under the key it
// was found under — the listed loop of the optimizer, recognised by what it
// does and not by the function its text is in.
func rebuildsFunctionTable(info *types.Info, rs *ast.RangeStmt) bool {
	tv, ok := info.Types[rs.X]
	if !ok {
		return false
	}
	mt, ok := tv.Type.Underlying().(*types.Map)
	if !ok || !isNamed(mt.Elem(), "environment", "UserFunction") {
		return false
	}
	keyID, ok := rs.Key.(*ast.Ident)
	if !ok {
		return false
	}
	keyObj := info.Defs[keyID]
	found := false
	ast.Inspect(rs.Body, func(n ast.Node) bool {
		as, ok := n.(*ast.AssignStmt)
		if !ok || len(as.Lhs) != 1 {
			return true
		}
		ix, ok := as.Lhs[0].(*ast.IndexExpr)
		if !ok {
			return true
		}
		if t2, ok := info.Types[ix.X]; !ok || !types.Identical(t2.Type.Underlying(), tv.Type.Underlying()) {
			return true
		}
		if exprStr(ix.X) == exprStr(rs.X) {
			return true // the table it ranges over, not another one
		}
		if id, ok := ix.Index.(*ast.Ident); ok && info.Uses[id] == keyObj && keyObj != nil {
			found = true
		}
		return true
	})
	return found
}

// earlyExit: a return, break or goto that leaves the range loop from inside
// its body (function literals and inner loops' own breaks excluded).
func earlyExit(rs *ast.RangeStmt) ast.Node {
	var found ast.Node
	var walk func(n ast.Node, innerLoop bool)
	walk = func(n ast.Node, innerLoop bool) {
		ast.Inspect(n, func(x ast.Node) bool {
			if found != nil || x == nil {
				return false
			}
			switch s := x.(type) {
			case *ast.FuncLit:
				return false
			case *ast.ForStmt:
				if s != n {
					walk(s.Body, true)
					return false
				}
			case *ast.RangeStmt:
				if s != n {
					walk(s.Body, true)
					return false
				}
			case *ast.SwitchStmt, *ast.TypeSwitchStmt, *ast.SelectStmt:
				// an unlabelled break inside a switch leaves the switch only
				if x != n {
					walk(x, true)
					return false
				}
			case *ast.ReturnStmt:
				found = s
			case *ast.BranchStmt:
				if s.Tok == token.GOTO || (s.Tok == token.BREAK && (!innerLoop || s.Label != nil)) {
					found = s
				}
			}
			return true
		})
	}
	walk(rs.Body, false)
	return found
}

// injectiveReads: comparator read sets that make the order total on the
// collected elements, by element type.
var injectiveReads = map[string][][]string{
	"object.HashPair": {{"Inspect", "Type"}}, // printed form plus type identifies a hashable key
	// a key of a host map, ordered by its value and its type — the value as
	// fmt's %v prints it, or taken out by its kind with the accessor of every
	// kind that becomes a key of ours (string, boolean, the integers, the
	// floats): keys that agree on both are converted to the same object, so
	// which of them comes first is of no consequence (NaN keys and keys that
	// print an address aside)
	"reflect.Value": {{"Sprintf", "Type"}, {"Kind", "String", "Bool", "Int", "Uint", "Float", "Type"}},
	// (the printed form of a syntax node does NOT identify it: "a<newline>" and
	// "a\\n" print alike — an entry that used to be here for ast.Expression was
	// wrong, see F30)
}

func ruleMapOrder(p *Program, r *Reporter) {
	for _, pk := range p.Pkgs {
		if !IsLibPath(pk.PkgPath) {
			continue
		}
		info := pk.TypesInfo
		for _, f := range pk.Syntax {
			var stack []ast.Node
			ast.Inspect(f, func(n ast.Node) bool {
				if n == nil {
					stack = stack[:len(stack)-1]
					return true
				}
				stack = append(stack, n)
				if as, ok := n.(*ast.AssignStmt); ok && len(as.Lhs) == 1 && len(as.Rhs) == 1 {
					// keys := v.MapKeys(): the slice is in map order until it is sorted
					if ce, ok := ast.Unparen(as.Rhs[0]).(*ast.CallExpr); ok {
						if fobj, ok := calleeObj(info, ce).(*types.Func); ok && fobj.Name() == "MapKeys" && fobj.Pkg() != nil && fobj.Pkg().Path() == "reflect" {
							var fnName string
							var block []ast.Stmt
							for i := len(stack) - 2; i >= 0; i-- {
								switch x := stack[i].(type) {
								case *ast.BlockStmt:
									if block == nil {
										block = x.List
									}
								case *ast.CaseClause:
									if block == nil {
										block = x.Body
									}
								case *ast.FuncDecl:
									if fnName == "" {
										fnName = shortPkg(pk.PkgPath) + "." + x.Name.Name
										if x.Recv != nil && len(x.Recv.List) > 0 {
											fnName = shortPkg(pk.PkgPath) + ".(" + exprStr(x.Recv.List[0].Type) + ")." + x.Name.Name
										}
									}
								}
							}
							key := "map keys in " + fnName + " taken from " + exprStr(as.Rhs[0])
							id, isID := as.Lhs[0].(*ast.Ident)
							var target types.Object
							if isID {
								if target = info.Defs[id]; target == nil {
									target = info.Uses[id]
								}
							}
							if target == nil {
								r.Fail(key, p.Pos(as.Pos()), "the keys of a map are stored where their use cannot be followed; they are in map-iteration order")
								return true
							}
							class, detail := sortedAfter(p, info, as, block, target)
							switch class {
							case "collected-then-sorted":
								r.OkNT(key, p.Pos(as.Pos()), class+": "+detail)
							case "sorted-not-total":
								r.Fail(key, p.Pos(as.Pos()), "the keys are sorted, but the comparator is not a total order on them ("+detail+"): keys that compare equal stay in map-iteration order, which differs from run to run")
							default:
								r.Fail(key, p.Pos(as.Pos()), "the keys of a map are used in map-iteration order ("+detail+"): what is done with them in turn — which of two entries that collide is kept, say — differs from run to run")
							}
						}
					}
					return true
				}
				rs, ok := n.(*ast.RangeStmt)
				if !ok {
					return true
				}
				isMap := false
				if tv, ok := info.Types[rs.X]; ok {
					if _, ok := tv.Type.Underlying().(*types.Map); ok {
						isMap = true
					}
				}
				// range over reflect's MapKeys()
				if ce, ok := ast.Unparen(rs.X).(*ast.CallExpr); ok {
					if fobj, ok := calleeObj(info, ce).(*types.Func); ok && fobj.Name() == "MapKeys" {
						isMap = true
					}
				}
				if !isMap {
					return true
				}
				// enclosing function and block
				var fnName string
				var block []ast.Stmt
				for i := len(stack) - 2; i >= 0; i-- {
					switch x := stack[i].(type) {
					case *ast.BlockStmt:
						if block == nil {
							block = x.List
						}
					case *ast.CaseClause:
						if block == nil {
							block = x.Body
						}
					case *ast.FuncDecl:
						if fnName == "" {
							fnName = shortPkg(pk.PkgPath) + "." + x.Name.Name
							if x.Recv != nil && len(x.Recv.List) > 0 {
								fnName = shortPkg(pk.PkgPath) + ".(" + exprStr(x.Recv.List[0].Type) + ")." + x.Name.Name
							}
						}
					}
				}
				key := "map iteration in " + fnName + " over " + exprStr(rs.X)
				class, detail := classifyMapLoop(p, info, rs, block)
				switch class {
				case "insert-only", "collected-then-sorted":
					r.OkNT(key, p.Pos(rs.Pos()), class+": "+detail)
				case "sorted-not-total":
					r.Fail(key, p.Pos(rs.Pos()), "the entries are collected and sorted, but the comparator is not a total order on them ("+detail+"): entries that compare equal come out in map-iteration order, which differs from run to run")
				case "sorted-wrong-order":
					r.Fail(key, p.Pos(rs.Pos()), "the entries are collected and sorted, but not in the order of their keys: "+detail)
				default:
					if exit := earlyExit(rs); exit != nil {
						// a listed loop is independent per iteration only if it runs to exhaustion
						r.Fail(key, p.Pos(exit.Pos()), "this iteration over a Go map can stop early (return / break inside the body): which entries were processed before the exit depends on the map's iteration order, so the outcome — here which functions were rewritten by the optimizer and which were left as compiled — differs from one Prepare, and one process, to the next")
					} else if why, ok := mapOrderTable[strings.Replace(fnName, "(*", "(", 1)]; ok && fnName != "" {
						r.OkNT(key, p.Pos(rs.Pos()), "listed: "+why)
					} else if why, ok := mapOrderTable[fnName]; ok {
						r.OkNT(key, p.Pos(rs.Pos()), "listed: "+why)
					} else if rebuildsFunctionTable(info, rs) {
						// the same loop, wherever its text sits
						r.OkNT(key, p.Pos(rs.Pos()), "listed: "+mapOrderTable["vm.New"])
					} else {
						r.Fail(key, p.Pos(rs.Pos()), "the body of this iteration over a Go map has effects that depend on the iteration order ("+detail+"); it neither only inserts into a map nor collects into a slice that is sorted before use")
					}
				}
				return true
			})
		}
	}
}

// printedFormKey: the expression is (or contains) String() / Inspect() of a
// value of a module type.
func printedFormKey(info *types.Info, e ast.Expr) string {
	why := ""
	ast.Inspect(e, func(n ast.Node) bool {
		ce, ok := n.(*ast.CallExpr)
		if !ok {
			return true
		}
		sel, ok := ce.Fun.(*ast.SelectorExpr)
		if !ok || (sel.Sel.Name != "String" && sel.Sel.Name != "Inspect") {
			return true
		}
		if tv, ok := info.Types[sel.X]; ok {
			t := deref(tv.Type)
			if n, ok := types.Unalias(t).(*types.Named); ok && n.Obj().Pkg() != nil && strings.HasPrefix(n.Obj().Pkg().Path(), Mod) {
				why = "the printed form (" + sel.Sel.Name + "()) of a " + n.Obj().Pkg().Name() + "." + n.Obj().Name()
			}
		}
		return true
	})
	return why
}

// notTheIterationKey: the key of an insertion made by the body of a range over
// a map is the iteration key itself (or, over reflect's MapKeys, that key taken
// out of its reflect.Value unchanged: Interface(), String(), an assertion or a
// conversion of those) — distinct entries are then stored under distinct keys.
// Anything computed from it (a prefix cut off, a case folded, a conversion
// that rounds) may send two entries to one key.  Keys that do not depend on
// the iteration at all are not the concern here.  "" when fine.
func notTheIterationKey(info *types.Info, rs *ast.RangeStmt, idx ast.Expr) string {
	iter := map[types.Object]bool{}
	for _, e := range []ast.Expr{rs.Key, rs.Value} {
		if id, ok := e.(*ast.Ident); ok && info.Defs[id] != nil {
			iter[info.Defs[id]] = true
		}
	}
	// over MapKeys() the key is the *value* variable of the range
	var isKey func(e ast.Expr, depth int) bool
	var bad string
	isKey = func(e ast.Expr, depth int) bool {
		if depth > 6 {
			return false
		}
		switch x := ast.Unparen(e).(type) {
		case *ast.Ident:
			obj := info.Uses[x]
			if iter[obj] {
				return true
			}
			// a local defined in the body by one assignment
			var def ast.Expr
			n := 0
			ast.Inspect(rs.Body, func(m ast.Node) bool {
				if as, ok := m.(*ast.AssignStmt); ok {
					for i, l := range as.Lhs {
						if id, ok := l.(*ast.Ident); ok && (info.Defs[id] == obj || info.Uses[id] == obj) && obj != nil {
							n++
							if len(as.Lhs) == len(as.Rhs) {
								def = as.Rhs[i]
							} else if i == 0 && len(as.Rhs) == 1 {
								def = as.Rhs[0] // v, ok := x.(T)
							} else {
								def = nil
							}
						}
					}
				}
				return true
			})
			if n == 1 && def != nil {
				return isKey(def, depth+1)
			}
			return false
		case *ast.TypeAssertExpr:
			return isKey(x.X, depth+1)
		case *ast.CallExpr:
			if tv, ok := info.Types[x.Fun]; ok && tv.IsType() && len(x.Args) == 1 {
				// string(k), T(k): only identity-like conversions between string types
				if b, ok := tv.Type.Underlying().(*types.Basic); ok && b.Kind() == types.String {
					if at, ok := info.Types[x.Args[0]]; ok {
						if ab, ok := at.Type.Underlying().(*types.Basic); ok && ab.Kind() == types.String {
							return isKey(x.Args[0], depth+1)
						}
					}
				}
				return false
			}
			if sel, ok := x.Fun.(*ast.SelectorExpr); ok && len(x.Args) == 0 {
				if fobj, ok := calleeObj(info, x).(*types.Func); ok && fobj.Pkg() != nil && fobj.Pkg().Path() == "reflect" && (fobj.Name() == "Interface" || fobj.Name() == "String") {
					return isKey(sel.X, depth+1)
				}
			}
			return false
		}
		return false
	}
	// does the index depend on the iteration at all?
	depends := false
	var dep func(e ast.Node, depth int)
	dep = func(e ast.Node, depth int) {
		if depth > 6 {
			return
		}
		ast.Inspect(e, func(m ast.Node) bool {
			id, ok := m.(*ast.Ident)
			if !ok {
				return true
			}
			obj := info.Uses[id]
			if obj == nil {
				return true
			}
			if iter[obj] {
				depends = true
				return false
			}
			ast.Inspect(rs.Body, func(k ast.Node) bool {
				if as, ok := k.(*ast.AssignStmt); ok {
					for i, l := range as.Lhs {
						if lid, ok := l.(*ast.Ident); ok && info.Defs[lid] == obj {
							if len(as.Lhs) == len(as.Rhs) {
								dep(as.Rhs[i], depth+1)
							} else if len(as.Rhs) == 1 {
								dep(as.Rhs[0], depth+1)
							}
						}
					}
				}
				return true
			})
			return true
		})
	}
	dep(idx, 0)
	if !depends {
		return ""
	}
	if isKey(idx, 0) {
		return ""
	}
	_ = bad
	return "computed from the iteration key (" + exprStr(idx) + "), not the key itself"
}

// classifyMapLoop inspects the body of a range over a map.
func classifyMapLoop(p *Program, info *types.Info, rs *ast.RangeStmt, block []ast.Stmt) (string, string) {
	declared := map[types.Object]bool{}
	if id, ok := rs.Key.(*ast.Ident); ok && info.Defs[id] != nil {
		declared[info.Defs[id]] = true
	}
	if id, ok := rs.Value.(*ast.Ident); ok && info.Defs[id] != nil {
		declared[info.Defs[id]] = true
	}
	var appendTarget types.Object
	appends, inserts, other := 0, 0, ""
	var walk func(stmts []ast.Stmt)
	walk = func(stmts []ast.Stmt) {
		for _, st := range stmts {
			switch s := st.(type) {
			case *ast.AssignStmt:
				if s.Tok == token.DEFINE {
					for _, l := range s.Lhs {
						if id, ok := l.(*ast.Ident); ok && info.Defs[id] != nil {
							declared[info.Defs[id]] = true
						}
					}
					continue
				}
				for i, l := range s.Lhs {
					switch lx := ast.Unparen(l).(type) {
					case *ast.IndexExpr:
						if tv, ok := info.Types[lx.X]; ok {
							if _, isMap := tv.Type.Underlying().(*types.Map); isMap {
								// two entries whose derived keys collide overwrite each other
								// in iteration order: the printed form of a syntax node or
								// object does not identify it
								if why := printedFormKey(info, lx.Index); why != "" {
									other = "insertion under a key that is " + why + " — entries that print alike overwrite each other, last one in map order wins"
									continue
								}
								if why := notTheIterationKey(info, rs, lx.Index); why != "" {
									other = "insertion under a key that is " + why + " — two entries of the map that is walked may be stored under one key, and the one walked last wins"
									continue
								}
								inserts++
								continue
							}
						}
						other = "assignment to an element of " + exprStr(lx.X)
					case *ast.Ident:
						obj := info.Uses[lx]
						if declared[obj] {
							continue
						}
						// x = append(x, …)
						if i < len(s.Rhs) {
							if ce, ok := s.Rhs[i].(*ast.CallExpr); ok {
								if fid, ok := ce.Fun.(*ast.Ident); ok && fid.Name == "append" && len(ce.Args) >= 1 {
									if aid, ok := ce.Args[0].(*ast.Ident); ok && info.Uses[aid] == obj {
										if appendTarget == nil || appendTarget == obj {
											appendTarget = obj
											appends++
											continue
										}
									}
								}
							}
						}
						other = "assignment to " + lx.Name + " (declared outside the loop)"
					default:
						other = "assignment to " + exprStr(l)
					}
				}
			case *ast.DeclStmt:
			case *ast.IfStmt:
				walk(s.Body.List)
				if s.Else != nil {
					if b, ok := s.Else.(*ast.BlockStmt); ok {
						walk(b.List)
					} else {
						walk([]ast.Stmt{s.Else})
					}
				}
			case *ast.BlockStmt:
				walk(s.List)
			case *ast.BranchStmt:
				if s.Tok != token.CONTINUE {
					other = s.Tok.String() + " statement"
				}
			case *ast.ExprStmt:
				other = "call " + exprStr(s.X)
			case *ast.ReturnStmt:
				other = "return from inside the loop"
			case *ast.IncDecStmt:
				if id, ok := s.X.(*ast.Ident); ok && declared[info.Uses[id]] {
					continue
				}
				other = "update of " + exprStr(s.X)
			default:
				other = fmt.Sprintf("%T", st)
			}
		}
	}
	walk(rs.Body.List)
	switch {
	case other != "":
		return "other", other
	case appends > 0 && inserts == 0:
		// the first later statement that mentions the slice must sort it
		return sortedAfter(p, info, rs, block, appendTarget)
	case inserts > 0 && appends == 0:
		return "insert-only", fmt.Sprintf("%d map insertion(s); everything else is local to an iteration", inserts)
	case inserts == 0 && appends == 0:
		return "insert-only", "no effect outside the iteration"
	}
	return "other", "mixes appends and map insertions"
}

func sortedAfter(p *Program, info *types.Info, rs ast.Stmt, block []ast.Stmt, target types.Object) (string, string) {
	if block == nil {
		return "other", "cannot find the enclosing block"
	}
	idx := -1
	for i, st := range block {
		if st == rs {
			idx = i
		}
	}
	if idx < 0 {
		return "other", "loop is not a direct statement of a block"
	}
	mentions := func(n ast.Node) bool {
		found := false
		ast.Inspect(n, func(m ast.Node) bool {
			if id, ok := m.(*ast.Ident); ok && info.Uses[id] == target {
				found = true
			}
			return true
		})
		return found
	}
	for _, st := range block[idx+1:] {
		if !mentions(st) {
			continue
		}
		es, ok := st.(*ast.ExprStmt)
		if !ok {
			return "other", "the collected slice " + target.Name() + " is used before being sorted (" + p.Pos(st.Pos()) + ")"
		}
		ce, ok := es.X.(*ast.CallExpr)
		if !ok {
			return "other", "the collected slice is used before being sorted"
		}
		fobj, ok := calleeObj(info, ce).(*types.Func)
		if !ok || fobj.Pkg() == nil || fobj.Pkg().Path() != "sort" || len(ce.Args) == 0 || !mentions(ce.Args[0]) {
			return "other", "the collected slice is used before being sorted"
		}
		switch fobj.Name() {
		case "Strings", "Ints", "Float64s":
			return "collected-then-sorted", "sort." + fobj.Name() + " (total order on the values themselves; equal values are interchangeable)"
		case "Sort", "Stable":
			// sort.Sort(T(slice)): look at T's Less
			return comparatorTotal(p, info, ce.Args[0], nil)
		case "Slice", "SliceStable":
			if len(ce.Args) == 2 {
				if fl, ok := ce.Args[1].(*ast.FuncLit); ok {
					return comparatorTotal(p, info, ce.Args[0], fl)
				}
			}
		}
		return "other", "sorted with an unrecognised comparator"
	}
	return "other", "the collected slice is never sorted"
}

// comparatorTotal: the set of methods the comparator invokes on elements must
// include an injective read set for the element type.
func comparatorTotal(p *Program, info *types.Info, sliceArg ast.Expr, fl *ast.FuncLit) (string, string) {
	var body ast.Node
	var elem types.Type
	if fl != nil {
		body = fl.Body
		if st, ok := info.Types[sliceArg].Type.Underlying().(*types.Slice); ok {
			elem = st.Elem()
		}
	} else {
		// conversion T(slice): find T.Less
		tv := info.Types[sliceArg]
		named, ok := types.Unalias(tv.Type).(*types.Named)
		if !ok {
			return "other", "sort.Sort on a value of unnamed type"
		}
		if st, ok := named.Underlying().(*types.Slice); ok {
			elem = st.Elem()
		}
		for _, pk := range p.Pkgs {
			for _, f := range pk.Syntax {
				for _, d := range f.Decls {
					fd, ok := d.(*ast.FuncDecl)
					if !ok || fd.Name.Name != "Less" || fd.Recv == nil || len(fd.Recv.List) == 0 {
						continue
					}
					if rt, ok := pk.TypesInfo.Types[fd.Recv.List[0].Type]; ok && types.Identical(rt.Type, named) {
						body = fd.Body
						info = pk.TypesInfo
					}
				}
			}
		}
	}
	if body == nil || elem == nil {
		return "other", "cannot find the comparator"
	}
	reads := map[string]bool{}
	// what a helper of the module that the comparator calls reads counts as read
	// by the comparator (one level)
	var bodies []ast.Node
	var helperFns []*ssa.Function
	bodyInfo := map[ast.Node]*types.Info{body: info}
	ast.Inspect(body, func(n ast.Node) bool {
		if ce, ok := n.(*ast.CallExpr); ok {
			if fobj, ok := calleeObj(info, ce).(*types.Func); ok && fobj.Pkg() != nil && strings.HasPrefix(fobj.Pkg().Path(), Mod) {
				if fd := funcDeclOf(p, fobj); fd != nil && fd.Body != nil {
					bodies = append(bodies, fd.Body)
					if pk := p.ByPath[fobj.Pkg().Path()]; pk != nil {
						bodyInfo[fd.Body] = pk.TypesInfo
					}
					if sf := p.SSA.FuncValue(fobj); sf != nil {
						helperFns = append(helperFns, sf)
					}
				}
			}
		}
		return true
	})
	// a time among the things compared: only its printed form tells two times
	// apart that differ in nothing but the reading of the monotonic clock
	// (time.Now() and the same time after Round(0) are two keys of a Go map)
	timeParts, timeWhole := token.NoPos, false
	for nd, inf := range bodyInfo {
		ast.Inspect(nd, func(n ast.Node) bool {
			ce, ok := n.(*ast.CallExpr)
			if !ok {
				return true
			}
			sel, ok := ce.Fun.(*ast.SelectorExpr)
			if !ok {
				return true
			}
			tv, ok := inf.Types[sel.X]
			if !ok || !isStdNamed(tv.Type, "time", "Time") {
				return true
			}
			switch sel.Sel.Name {
			case "String", "GoString":
				timeWhole = true
			case "Unix", "UnixNano", "UnixMilli", "UnixMicro", "Nanosecond", "Second", "Format", "Equal", "Before", "After", "Compare":
				if !timeParts.IsValid() {
					timeParts = sel.Pos()
				}
			}
			return true
		})
	}
	if timeParts.IsValid() && !timeWhole {
		return "sorted-not-total", "the comparator orders times by their instant (" + p.Pos(timeParts) + "): two times that differ only in the reading of the monotonic clock — time.Now() and the same value after Round(0) — are different keys of a map but compare equal here, so they stay in map-iteration order and which of the two entries survives the conversion changes from run to run"
	}
	for _, hb := range bodies {
		ast.Inspect(hb, func(n ast.Node) bool {
			if ce, ok := n.(*ast.CallExpr); ok {
				if sel, ok := ce.Fun.(*ast.SelectorExpr); ok {
					reads[sel.Sel.Name] = true
				}
			}
			return true
		})
	}
	ast.Inspect(body, func(n ast.Node) bool {
		if ce, ok := n.(*ast.CallExpr); ok {
			if sel, ok := ce.Fun.(*ast.SelectorExpr); ok {
				reads[sel.Sel.Name] = true
				// a method of the value the element maps to: m[elem].String()
				if ix, ok := ast.Unparen(sel.X).(*ast.IndexExpr); ok {
					if tv, ok := info.Types[ix.X]; ok {
						if _, isMap := tv.Type.Underlying().(*types.Map); isMap {
							reads["mapped-value."+sel.Sel.Name] = true
						}
					}
				}
			}
		}
		return true
	})
	var rl []string
	for k := range reads {
		rl = append(rl, k)
	}
	sort.Strings(rl)
	alts, ok := injectiveReads[typeStr(elem)]
	if !ok {
		return "sorted-not-total", fmt.Sprintf("elements of type %s are ordered by %v only, which does not identify an element (two different entries can compare equal)", typeStr(elem), rl)
	}
	total := false
	for _, need := range alts {
		all := true
		for _, n := range need {
			if !reads[n] {
				all = false
			}
		}
		if all {
			total = true
		}
	}
	if !total {
		return "sorted-not-total", fmt.Sprintf("elements of type %s are ordered by %v; a total order needs %v", typeStr(elem), rl, alts)
	}
	// what is read must also be what is compared: in a helper that turns an
	// element into the text the comparator orders by, the value accessors'
	// results reach what the helper returns (a text that is computed and then
	// left out of the result orders nothing)
	if typeStr(elem) == "reflect.Value" {
		for _, hf := range helperFns {
			rs := sigResults(hf)
			if len(rs) != 1 || len(hf.Blocks) == 0 {
				continue
			}
			for _, acc := range []string{"String", "Int", "Uint", "Float", "Bool"} {
				if !reads[acc] {
					continue
				}
				n, flows := 0, false
				for _, b := range hf.Blocks {
					for _, ins := range b.Instrs {
						c, ok := ins.(*ssa.Call)
						if !ok || c.Call.StaticCallee() == nil || c.Call.StaticCallee().Name() != acc || !isStdNamed(sigRecvType(c.Call.StaticCallee()), "reflect", "Value") {
							continue
						}
						n++
						if flowsToReturn(c, map[ssa.Value]bool{}, 0) {
							flows = true
						}
					}
				}
				if n > 0 && !flows {
					return "sorted-not-total", fmt.Sprintf("%s reads the key's value with %s() but what it reads does not reach the text it returns: the keys are ordered by less than their value (by their type alone, say), and keys that agree on that stay in map-iteration order", hf.Name(), acc)
				}
			}
		}
	}
	// the entries of a hash are in the order of their keys' printed forms (the
	// documented order of iteration, keys() and the printed hash): the string
	// comparison that decides compares the printed forms themselves, not a
	// string put together from them ("1" < "10", but "1:INTEGER" > "10:INTEGER")
	if typeStr(elem) == "object.HashPair" {
		if why := notOrderedByPrintedForm(p, info, body, bodies); why != "" {
			return "sorted-wrong-order", why
		}
	}
	return "collected-then-sorted", fmt.Sprintf("comparator reads %v of each %s (identifies the element)", rl, typeStr(elem))
}

// notOrderedByPrintedForm: in the comparator (and the helpers of the module it
// calls) every ordering of two strings compares Inspect() with Inspect() or
// Type() with Type() of the two entries; "" when so.
func notOrderedByPrintedForm(p *Program, info *types.Info, body ast.Node, helpers []ast.Node) string {
	// local definitions: name → expression
	defs := map[types.Object]ast.Expr{}
	collect := func(n ast.Node) {
		ast.Inspect(n, func(m ast.Node) bool {
			if as, ok := m.(*ast.AssignStmt); ok && len(as.Lhs) == len(as.Rhs) {
				for i, l := range as.Lhs {
					if id, ok := l.(*ast.Ident); ok {
						if o := info.Defs[id]; o != nil {
							defs[o] = as.Rhs[i]
						}
					}
				}
			}
			return true
		})
	}
	collect(body)
	var kind func(e ast.Expr, depth int) string
	kind = func(e ast.Expr, depth int) string {
		if depth > 6 {
			return "derived"
		}
		switch x := ast.Unparen(e).(type) {
		case *ast.Ident:
			if o := info.Uses[x]; o != nil {
				if d, ok := defs[o]; ok {
					return kind(d, depth+1)
				}
			}
			return "derived"
		case *ast.CallExpr:
			if tv, ok := info.Types[x.Fun]; ok && tv.IsType() && len(x.Args) == 1 {
				return kind(x.Args[0], depth+1)
			}
			if sel, ok := x.Fun.(*ast.SelectorExpr); ok && len(x.Args) == 0 {
				switch sel.Sel.Name {
				case "Inspect":
					return "printed"
				case "Type":
					return "type"
				}
			}
			return "derived"
		}
		return "derived"
	}
	printed, bad := 0, ""
	scan := func(n ast.Node) {
		ast.Inspect(n, func(m ast.Node) bool {
			be, ok := m.(*ast.BinaryExpr)
			if !ok || (be.Op != token.LSS && be.Op != token.GTR && be.Op != token.LEQ && be.Op != token.GEQ) {
				return true
			}
			tv, ok := info.Types[be.X]
			if !ok {
				return true
			}
			if b, ok := tv.Type.Underlying().(*types.Basic); !ok || b.Info()&types.IsString == 0 {
				return true
			}
			kx, ky := kind(be.X, 0), kind(be.Y, 0)
			switch {
			case kx == "printed" && ky == "printed":
				printed++
			case kx == "type" && ky == "type":
			default:
				bad = "the entries are ordered by comparing " + exprStr(be.X) + " with " + exprStr(be.Y) + ", strings that are not the printed forms of the two keys themselves: a string put together from the printed form and something else orders \"1\" after \"10\" (\"1:…\" > \"10:…\"), so a hash no longer iterates, lists its keys or prints in the order of its keys"
			}
			return true
		})
	}
	scan(body)
	for _, h := range helpers {
		collect(h)
		scan(h)
	}
	if bad != "" {
		return bad
	}
	if printed == 0 {
		return "no comparison of the printed forms (Inspect()) of the two keys decides the order of the entries"
	}
	return ""
}

// ---------------------------------------------------------------------------
// R-HASHKEY

func ruleHashKey(p *Program, r *Reporter) {
	n := 0
	for _, fn := range p.LibFns {
		if fn.Name() != "HashKey" || fn.Signature.Recv() == nil || fn.Parent() != nil {
			continue
		}
		tn := objectStructName(fn.Signature.Recv().Type())
		if tn == "" {
			continue
		}
		n++
		typeOK, valueOK := false, false
		lossy, lossyPos := "", token.NoPos
		for _, b := range fn.Blocks {
			for _, ins := range b.Instrs {
				st, ok := ins.(*ssa.Store)
				if !ok {
					continue
				}
				owner, f, ok := fieldOf(st.Addr)
				if !ok || owner == nil || owner.Obj().Name() != "HashKey" {
					continue
				}
				switch f {
				case "Type":
					// from the receiver's own Type() or a constant naming its type
					if c, ok := st.Val.(*ssa.Call); ok && c.Call.StaticCallee() != nil && c.Call.StaticCallee().Name() == "Type" && objectStructName(sigRecvType(c.Call.StaticCallee())) == tn {
						typeOK = true
					}
					if c, ok := st.Val.(*ssa.Const); ok && c.Value != nil && c.Value.Kind() == constant.String && strings.EqualFold(constant.StringVal(c.Value), tn) {
						typeOK = true
					}
				case "Value":
					if _, isConst := st.Val.(*ssa.Const); !isConst {
						valueOK = true
					}
					if why, ps := lossyHashStep(st.Val, map[ssa.Value]bool{}, 0); why != "" && lossy == "" {
						lossy, lossyPos = why, ps
					}
				}
			}
		}
		key := "hash key of object." + tn
		if typeOK && valueOK {
			r.Check(lossy == "", key+"/no two values share a key by construction", p.Pos(posOr(lossyPos, fn.Pos())), "the value component is computed from the whole value (a same-width conversion, or a hash of its text)", lossy+": distinct values of this type get the same key, so as hash keys they name one entry — {1.5:\"a\", 1.25:\"b\"}[1.25] is \"a\" — and the literal that lists both silently keeps one")
		}
		switch {
		case !typeOK:
			r.Fail(key, p.Pos(fn.Pos()), "HashKey() does not record the object's own type: keys of different types that hash/print alike (1 and \"1\", 1 and 1.0) collide and overwrite each other")
		case !valueOK:
			r.Fail(key, p.Pos(fn.Pos()), "HashKey() does not derive its value component from the object: all keys of this type collide")
		default:
			r.OkNT(key, p.Pos(fn.Pos()), "type from "+tn+".Type(), value from the object")
		}
	}
	if n == 0 {
		r.Undecided("hash keys", "-", "no HashKey() implementation found")
	}
	// the object whose key is taken is the object the script supplied: nothing
	// the machine made up stands in for it
	cg := p.CallGraph()
	var fresh func(v ssa.Value, fn *ssa.Function, depth int, seen map[ssa.Value]bool) token.Pos
	fresh = func(v ssa.Value, fn *ssa.Function, depth int, seen map[ssa.Value]bool) token.Pos {
		if v == nil || seen[v] || depth > 4 {
			return token.NoPos
		}
		seen[v] = true
		switch x := v.(type) {
		case *ssa.Phi:
			for _, e := range x.Edges {
				if ps := fresh(e, fn, depth, seen); ps.IsValid() {
					return ps
				}
			}
		case *ssa.TypeAssert:
			return fresh(x.X, fn, depth, seen)
		case *ssa.Extract:
			return fresh(x.Tuple, fn, depth, seen)
		case *ssa.MakeInterface:
			return fresh(x.X, fn, depth, seen)
		case *ssa.ChangeInterface:
			return fresh(x.X, fn, depth, seen)
		case *ssa.Alloc:
			if x.Heap && objectStructName(x.Type()) != "" {
				return x.Pos()
			}
		case *ssa.Parameter:
			if nd := cg.Nodes[fn]; nd != nil && !ast.IsExported(fn.Name()) {
				idx := -1
				for i, q := range fn.Params {
					if q == x {
						idx = i
					}
				}
				for _, e := range nd.In {
					if e.Site == nil || idx < 0 {
						continue
					}
					args := e.Site.Common().Args
					if e.Site.Common().IsInvoke() || idx >= len(args) {
						continue
					}
					if ps := fresh(args[idx], e.Caller.Func, depth+1, seen); ps.IsValid() {
						return ps
					}
				}
			}
		}
		return token.NoPos
	}
	nth := map[string]int{}
	for _, fn := range p.LibFns {
		if fnPkg(fn).Pkg.Path() != Mod+"/vm" {
			continue
		}
		for _, b := range fn.Blocks {
			for _, ins := range b.Instrs {
				cc := callOf(ins)
				if cc == nil || !cc.IsInvoke() || cc.Method.Name() != "HashKey" {
					continue
				}
				nth[p.FnName(fn)]++
				key := fmt.Sprintf("%s/hash key %d is taken from the object the script supplied", p.FnName(fn), nth[p.FnName(fn)])
				if ps := fresh(cc.Value, fn, 0, map[ssa.Value]bool{}); ps.IsValid() {
					r.Fail(key, p.Pos(ins.Pos()), "on some path the object whose HashKey() is used was made by the machine itself ("+p.Pos(ps)+") in place of the script's value: a key is then stored or looked up under another key's identity — 2.0 under 2, say — so an entry cannot be read back, or two distinct keys name one entry")
				} else {
					r.OkNT(key, p.Pos(ins.Pos()), "the receiver is the popped / passed object on every path")
				}
			}
		}
	}
}

func posOr(a, b token.Pos) token.Pos {
	if a.IsValid() {
		return a
	}
	return b
}

// lossyHashStep: a step in the computation of v that maps distinct inputs to
// one output by construction — a float cut down to an integer, an integer cut
// down to fewer bits, a remainder, a shift to the right, a mask, a length, a
// part of a string.  (A hash function is not such a step: it may collide, but
// not by construction.)
func lossyHashStep(v ssa.Value, seen map[ssa.Value]bool, depth int) (string, token.Pos) {
	if v == nil || seen[v] || depth > 12 {
		return "", token.NoPos
	}
	seen[v] = true
	isFloat := func(t types.Type) bool {
		b, ok := t.Underlying().(*types.Basic)
		return ok && b.Info()&types.IsFloat != 0
	}
	intBits := func(t types.Type) int {
		b, ok := t.Underlying().(*types.Basic)
		if !ok || b.Info()&types.IsInteger == 0 {
			return 0
		}
		switch b.Kind() {
		case types.Int8, types.Uint8:
			return 8
		case types.Int16, types.Uint16:
			return 16
		case types.Int32, types.Uint32:
			return 32
		case types.Int, types.Uint, types.Uintptr:
			return 63 // at least 32, at most 64: narrower than a 64-bit integer on some platforms
		}
		return 64
	}
	switch x := v.(type) {
	case *ssa.Convert:
		from, to := x.X.Type(), x.Type()
		switch {
		case isFloat(from) && intBits(to) > 0:
			return "the value is a floating-point number cut down to an integer (" + from.String() + " → " + to.String() + "): every number with the same integer part gives the same result", x.Pos()
		case intBits(from) > 0 && intBits(to) > 0 && intBits(to) < intBits(from):
			return "the value is an integer cut down to fewer bits (" + from.String() + " → " + to.String() + ")", x.Pos()
		case isFloat(from) && isFloat(to) && from.Underlying().(*types.Basic).Kind() == types.Float64 && to.Underlying().(*types.Basic).Kind() == types.Float32:
			return "the value is rounded to a float32", x.Pos()
		}
		return lossyHashStep(x.X, seen, depth+1)
	case *ssa.ChangeType:
		return lossyHashStep(x.X, seen, depth+1)
	case *ssa.BinOp:
		switch x.Op {
		case token.REM, token.QUO, token.SHR, token.AND, token.AND_NOT:
			return "the value goes through `" + x.Op.String() + "`, which maps many numbers to one", x.Pos()
		}
		if why, ps := lossyHashStep(x.X, seen, depth+1); why != "" {
			return why, ps
		}
		return lossyHashStep(x.Y, seen, depth+1)
	case *ssa.Slice:
		if b, ok := x.X.Type().Underlying().(*types.Basic); ok && b.Info()&types.IsString != 0 && (x.Low != nil || x.High != nil) {
			return "only a part of the text is used", x.Pos()
		}
		return lossyHashStep(x.X, seen, depth+1)
	case *ssa.Phi:
		for _, e := range x.Edges {
			if why, ps := lossyHashStep(e, seen, depth+1); why != "" {
				return why, ps
			}
		}
	case *ssa.UnOp:
		if al, ok := x.X.(*ssa.Alloc); ok && x.Op == token.MUL && al.Referrers() != nil {
			for _, ref := range *al.Referrers() {
				if st, ok := ref.(*ssa.Store); ok && st.Addr == ssa.Value(al) {
					if why, ps := lossyHashStep(st.Val, seen, depth+1); why != "" {
						return why, ps
					}
				}
			}
		}
	case *ssa.Call:
		if bi, ok := x.Call.Value.(*ssa.Builtin); ok && bi.Name() == "len" {
			return "only the length of the value is used", x.Pos()
		}
		// a checksum of 32 bits or fewer as the identity of a key: nothing else
		// tells two keys apart, and with 2^32 values two of some 77 000 keys
		// agree more likely than not (pairs of English words are known)
		if nm := calleeMethodName(&x.Call); nm == "Sum32" || nm == "Sum16" || nm == "Sum8" {
			return "the value is a " + strings.TrimPrefix(nm, "Sum") + "-bit checksum: the checksum is all that identifies a key of this type, and at that width different texts share one in practice (`costarring` and `liquid` under 32-bit FNV-1a)", x.Pos()
		}
		// what was written into a hasher whose sum this is
		if x.Call.IsInvoke() && len(x.Call.Args) == 0 {
			recv := x.Call.Value
			if recv.Referrers() != nil {
				for _, ref := range *recv.Referrers() {
					c, ok := ref.(*ssa.Call)
					if !ok || !c.Call.IsInvoke() || c.Call.Value != recv || c == x {
						continue
					}
					for _, a := range c.Call.Args {
						if why, ps := lossyHashStep(a, seen, depth+1); why != "" {
							return why, ps
						}
					}
				}
			}
			return "", token.NoPos
		}
		for _, a := range x.Call.Args {
			if why, ps := lossyHashStep(a, seen, depth+1); why != "" {
				return why, ps
			}
		}
	}
	return "", token.NoPos
}

// listReadsIdentityOnly: every value of the type that the module reads out of
// a slice or array (an element load) is used for identity only, and no loop
// hands the elements to anything else.
func listReadsIdentityOnly(p *Program, t types.Type, depth int) bool {
	n := 0
	for _, fn := range p.LibFns {
		for _, b := range fn.Blocks {
			for _, ins := range b.Instrs {
				ld, ok := ins.(*ssa.UnOp)
				if !ok || ld.Op != token.MUL || !types.Identical(ld.Type(), t) {
					continue
				}
				if _, isIA := ld.X.(*ssa.IndexAddr); !isIA {
					continue
				}
				if al, isAl := ld.X.(*ssa.IndexAddr).X.(*ssa.Alloc); isAl {
					_ = al
					continue // the argument array being built
				}
				n++
				if !identityOnly(ld, depth) {
					return false
				}
			}
		}
	}
	return n > 0
}

// functionsHandedBack: v is (a result of) a static call of a module function
// whose every return puts a function literal of the module, or nil, in that
// place; the literals.
func functionsHandedBack(v ssa.Value) ([]*ssa.Function, bool) {
	var out []*ssa.Function
	os := origins(v)
	if len(os) == 0 {
		return nil, false
	}
	for _, o := range os {
		var cl *ssa.Call
		idx := 0
		switch x := o.(type) {
		case *ssa.Extract:
			cl, _ = x.Tuple.(*ssa.Call)
			idx = x.Index
		case *ssa.Call:
			cl = x
		}
		if cl == nil {
			return nil, false
		}
		h := cl.Call.StaticCallee()
		if h == nil || fnPkg(h) == nil || !IsLibPath(fnPkg(h).Pkg.Path()) || len(h.Blocks) == 0 {
			return nil, false
		}
		for _, b := range h.Blocks {
			ret, ok := terminator(b).(*ssa.Return)
			if !ok || idx >= len(ret.Results) {
				continue
			}
			rv := returnOperand(ret, idx)
			if c, ok := rv.(*ssa.Const); ok && c.IsNil() {
				continue
			}
			mc, ok := rv.(*ssa.MakeClosure)
			if !ok {
				return nil, false
			}
			f, ok := mc.Fn.(*ssa.Function)
			if !ok || fnPkg(f) == nil || !IsLibPath(fnPkg(f).Pkg.Path()) {
				return nil, false
			}
			out = append(out, f)
		}
	}
	return out, len(out) > 0
}

// selfGuardedObject: see ruleGlobals.
func selfGuardedObject(p *Program, g *ssa.Global, fns []*ssa.Function) (string, bool) {
	st, ok := deref(g.Type()).Underlying().(*types.Struct)
	if !ok {
		return "", false
	}
	mutexField := -1
	for i := 0; i < st.NumFields(); i++ {
		if isStdNamed(st.Field(i).Type(), "sync", "Mutex") || isStdNamed(st.Field(i).Type(), "sync", "RWMutex") {
			mutexField = i
		}
	}
	if mutexField < 0 {
		return "", false
	}
	named := deref(g.Type())
	methods := map[*ssa.Function]bool{}
	uses := 0
	for _, fn := range fns {
		if isInitFn(fn) {
			continue
		}
		for _, b := range fn.Blocks {
			for _, ins := range b.Instrs {
				for _, op := range ins.Operands(nil) {
					if op == nil || *op != ssa.Value(g) {
						continue
					}
					uses++
					cc := callOf(ins)
					if cc == nil || cc.StaticCallee() == nil || len(cc.Args) == 0 || cc.Args[0] != ssa.Value(g) || cc.StaticCallee().Signature.Recv() == nil {
						return "", false
					}
					for i, a := range cc.Args {
						if i > 0 && a == ssa.Value(g) {
							return "", false
						}
					}
					if !types.Identical(deref(cc.StaticCallee().Signature.Recv().Type()), named) {
						return "", false
					}
					methods[cc.StaticCallee()] = true
				}
			}
		}
	}
	if uses == 0 || len(methods) == 0 {
		return "", false
	}
	// methods the methods call on the same receiver count too
	for changed := true; changed; {
		changed = false
		for m := range methods {
			for _, b := range m.Blocks {
				for _, ins := range b.Instrs {
					if cc := callOf(ins); cc != nil && cc.StaticCallee() != nil && len(cc.Args) > 0 && len(m.Params) > 0 && cc.Args[0] == ssa.Value(m.Params[0]) && cc.StaticCallee().Signature.Recv() != nil && !methods[cc.StaticCallee()] && len(cc.StaticCallee().Blocks) > 0 && fnPkg(cc.StaticCallee()) != nil && IsLibPath(fnPkg(cc.StaticCallee()).Pkg.Path()) {
						methods[cc.StaticCallee()] = true
						changed = true
					}
				}
			}
		}
	}
	accesses := 0
	for m := range methods {
		if len(m.Params) == 0 {
			return "", false
		}
		recv := ssa.Value(m.Params[0])
		isLock := func(v ssa.Value) bool {
			fa, ok := v.(*ssa.FieldAddr)
			return ok && fa.X == recv && fa.Field == mutexField
		}
		for _, b := range m.Blocks {
			for _, ins := range b.Instrs {
				// the receiver itself must stay in the method
				switch x := ins.(type) {
				case *ssa.Store:
					if x.Val == recv {
						return "", false
					}
				case *ssa.Return:
					for _, rv := range x.Results {
						if rv == recv {
							return "", false
						}
					}
				case *ssa.MakeClosure:
					for _, bd := range x.Bindings {
						if bd == recv {
							return "", false
						}
					}
				}
				fa, ok := ins.(*ssa.FieldAddr)
				if !ok || fa.X != recv || fa.Field == mutexField {
					continue
				}
				accesses++
				if !heldAtBy(fa, isLock) {
					return "", false
				}
				// what the field refers to stays inside: loads are used for
				// look-ups, updates, len, delete only
				for _, ref := range liveRefs(fa) {
					ld, ok := ref.(*ssa.UnOp)
					if !ok {
						if st, isSt := ref.(*ssa.Store); isSt && st.Addr == ssa.Value(fa) {
							if !heldAtBy(st, isLock) {
								return "", false
							}
							continue
						}
						return "", false
					}
					if !heldAtBy(ld, isLock) {
						return "", false
					}
					for _, r2 := range liveRefs(ld) {
						switch y := r2.(type) {
						case *ssa.Lookup, *ssa.MapUpdate, *ssa.IndexAddr, *ssa.Index, *ssa.Range:
							if in2, ok := r2.(ssa.Instruction); ok && !heldAtBy(in2, isLock) {
								return "", false
							}
						case *ssa.Call:
							if _, isBuiltin := y.Call.Value.(*ssa.Builtin); !isBuiltin {
								return "", false
							}
						case *ssa.DebugRef:
						default:
							return "", false
						}
					}
				}
			}
		}
	}
	if accesses == 0 {
		return "", false
	}
	return fmt.Sprintf("an object with a mutex of its own: the variable is only the receiver of %d method(s) of its type, which touch its other fields (%d access(es)) only while that mutex is held and keep what they refer to to themselves", len(methods), accesses), true
}

func calleeMethodName(cc *ssa.CallCommon) string {
	if cc.IsInvoke() {
		return cc.Method.Name()
	}
	if f := cc.StaticCallee(); f != nil && f.Signature.Recv() != nil {
		return f.Name()
	}
	return ""
}

// flowsToReturn: the value reaches an operand of a return of its function,
// through conversions, concatenations, formatting calls, merges and local
// variables.
func flowsToReturn(v ssa.Value, seen map[ssa.Value]bool, depth int) bool {
	if v == nil || seen[v] || depth > 12 || v.Referrers() == nil {
		return false
	}
	seen[v] = true
	for _, ref := range *v.Referrers() {
		switch x := ref.(type) {
		case *ssa.Return:
			return true
		case *ssa.Store:
			if x.Val != v {
				continue
			}
			// a local variable, or a slot of an argument list
			switch a := x.Addr.(type) {
			case *ssa.Alloc:
				for _, r2 := range *a.Referrers() {
					if ld, ok := r2.(*ssa.UnOp); ok && ld.Op == token.MUL && flowsToReturn(ld, seen, depth+1) {
						return true
					}
				}
			case *ssa.IndexAddr:
				if al, ok := a.X.(*ssa.Alloc); ok && al.Referrers() != nil {
					for _, r2 := range *al.Referrers() {
						if sl, ok := r2.(*ssa.Slice); ok && flowsToReturn(sl, seen, depth+1) {
							return true
						}
					}
				}
			}
		case ssa.Value:
			switch x.(type) {
			case *ssa.BinOp, *ssa.Convert, *ssa.ChangeType, *ssa.MakeInterface, *ssa.Phi, *ssa.Call, *ssa.Slice, *ssa.Extract, *ssa.UnOp:
				if flowsToReturn(x, seen, depth+1) {
					return true
				}
			}
		}
	}
	return false
}
