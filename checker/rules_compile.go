package main

// Rules about the translation pipeline: error propagation, back-patching,
// join-point placeholders, opcode reads at instruction boundaries, 16-bit
// operand narrowing, fresh compile outputs.

import (
	"fmt"
	"go/ast"
	"go/constant"
	"go/token"
	"go/types"
	"sort"
	"strings"

	"golang.org/x/tools/go/ssa"
)

func init() {
	register(&Rule{ID: "R-ERRPROP", Floor: 200, Run: ruleErrProp,
		Text: "Every error result of a call in library code is used, and inside the branch taken when it is non-nil a function that itself returns an error never returns nil in its place."})
	register(&Rule{ID: "R-PATCHALL", Floor: 8, Run: rulePatchAll,
		Text: "Every jump emitted by the compiler with a placeholder operand is back-patched on every path to a successful exit."})
	register(&Rule{ID: "R-JOINPH", Floor: 9, Run: ruleJoinPH,
		Text: "Every forward label the compiler back-patches is (a) followed on every path by an instruction of the same body, and (b) outside every constant-folding window: either it directly follows an unconditional jump or the instruction at the label is the placeholder opcode; and the folding pass resets its window at every opcode it does not name (jumps and placeholder are not named)."})
	register(&Rule{ID: "R-LOOPHEAD", Floor: 2, Run: ruleLoopHead,
		Text: "A loop's backward jump targets a position recorded before the code that must be re-executed: before the condition for while, after the iterator reset and before the iterator step for foreach."})
	register(&Rule{ID: "R-OPBOUNDARY", Floor: 3, Run: ruleOpBoundary,
		Text: "A byte of a program is read as an opcode only at an instruction pointer, never at an index computed from the length of the byte slice (that byte may be an operand)."})
	register(&Rule{ID: "R-NARROW", Floor: 6, Run: ruleNarrow,
		Text: "Every conversion to uint16 that is written into a program is guarded by a range test on the converted value, or re-encodes an operand that was decoded from 16 bits."})
	register(&Rule{ID: "R-PREPAREFRESH", Floor: 4, Run: rulePrepareFresh,
		Text: "Prepare starts from empty compile outputs: every Eval field the compiler appends to, inserts into, counts in or flags (slices, maps, counters, booleans) is put back to empty / zero before the compile call; and every failing return after that reset has cleared the machine of the previous program."})
	register(&Rule{ID: "R-NOINJECT", Floor: 4, Run: ruleNoInject,
		Text: "The library writes into the script's variable namespace only from VM opcode handlers and from SetVariable."})
}

// ---------------------------------------------------------------------------
// R-ERRPROP

// errResultIndex: index of the error in a call's result (-1 none).
func errResultIndex(t types.Type) (idx int, tuple bool) {
	if tp, ok := t.(*types.Tuple); ok {
		for i := tp.Len() - 1; i >= 0; i-- {
			if isErrorType(tp.At(i).Type()) {
				return i, true
			}
		}
		return -1, true
	}
	if isErrorType(t) {
		return 0, false
	}
	return -1, false
}

func liveRefs(v ssa.Value) []ssa.Instruction {
	var out []ssa.Instruction
	if v.Referrers() == nil {
		return nil
	}
	for _, r := range *v.Referrers() {
		if _, ok := r.(*ssa.DebugRef); ok {
			continue
		}
		out = append(out, r)
	}
	return out
}

// errIgnorable lists external callees whose error result may be dropped, with
// the reason.  Everything else — every function of the module, and every other
// external function — must have its error looked at.
var errIgnorable = map[string]string{
	"(*bytes.Buffer).WriteString":    "documented: err is always nil",
	"(*bytes.Buffer).WriteByte":      "documented: err is always nil",
	"(*bytes.Buffer).WriteRune":      "documented: err is always nil",
	"(*bytes.Buffer).Write":          "documented: err is always nil",
	"(*strings.Builder).WriteString": "documented: always returns a nil error",
	"(*strings.Builder).WriteByte":   "documented: always returns a nil error",
	"(*strings.Builder).WriteRune":   "documented: always returns a nil error",
	"(*strings.Builder).Write":       "documented: always returns a nil error",
	"(hash.Hash).Write":              "hash.Hash: Write never returns an error",
	"(hash.Hash64).Write":            "hash.Hash: Write never returns an error",
	"(io.Writer).Write":              "only reached with a hash.Hash receiver (checked by R-EFFECTS); never returns an error",
	"fmt.Printf":                     "a failed write to standard output has no bearing on any property",
	"fmt.Print":                      "a failed write to standard output has no bearing on any property",
	"fmt.Println":                    "a failed write to standard output has no bearing on any property",
}

func calleeFullName(c *ssa.CallCommon) string {
	if c.IsInvoke() {
		return "(" + types.TypeString(c.Value.Type(), nil) + ")." + c.Method.Name()
	}
	if f := c.StaticCallee(); f != nil {
		if f.Object() != nil {
			if fo, ok := f.Object().(*types.Func); ok {
				return fo.FullName()
			}
		}
		return f.String()
	}
	return "<dynamic>"
}

func ruleErrProp(p *Program, r *Reporter) {
	for _, fn := range p.LibFns {
		fnErrIdx := -1
		rs := fn.Signature.Results()
		for i := rs.Len() - 1; i >= 0; i-- {
			if isErrorType(rs.At(i).Type()) {
				fnErrIdx = i
				break
			}
		}
		for _, b := range fn.Blocks {
			for _, ins := range b.Instrs {
				call, ok := ins.(*ssa.Call)
				if !ok {
					continue
				}
				idx, tuple := errResultIndex(call.Type())
				if idx < 0 {
					continue
				}
				key := siteKey(p, fn, call.Pos(), callKey(p, fn, call))
				pos := p.Pos(call.Pos())
				// (a) the error value
				var errVals []ssa.Value
				if tuple {
					for _, ref := range liveRefs(call) {
						if ex, ok := ref.(*ssa.Extract); ok && ex.Index == idx {
							errVals = append(errVals, ex)
						}
					}
				} else {
					errVals = []ssa.Value{call}
				}
				used := false
				for _, ev := range errVals {
					if len(liveRefs(ev)) > 0 {
						used = true
					}
				}
				if !used {
					full := calleeFullName(&call.Call)
					if why, ok := errIgnorable[full]; ok {
						r.Ok(key, pos, "error dropped; allowed for "+full+": "+why)
					} else {
						r.Fail(key, pos, "the error result of "+full+" is never looked at")
					}
					continue
				}
				// (c) an error produced inside a loop must be tested inside it: merging it
				// into a loop-carried variable lets a later iteration overwrite it
				if inCycle(b) {
					tested := false
					seenV := map[ssa.Value]bool{}
					var follow func(v ssa.Value, viaPhi bool)
					follow = func(v ssa.Value, viaPhi bool) {
						if seenV[v] {
							return
						}
						seenV[v] = true
						for _, ref := range liveRefs(v) {
							switch x := ref.(type) {
							case *ssa.BinOp:
								if (isNilConst(x.X) || isNilConst(x.Y)) && (x.Block() == b || blockReaches(x.Block(), b, nil)) {
									tested = true
								}
							case *ssa.Return:
								if !viaPhi {
									tested = true
								}
							case *ssa.Store:
								if _, ok := terminator(x.Block()).(*ssa.Return); ok && !viaPhi {
									tested = true
								}
							case *ssa.Phi:
								follow(x, true)
							}
						}
					}
					for _, ev := range errVals {
						follow(ev, false)
					}
					if !tested {
						r.Fail(key, pos, "this call sits in a loop and its error is neither tested nor returned inside the loop (it only flows into a variable the next iteration overwrites): all but the last iteration's failures are lost")
						continue
					}
				}
				// (b) swallowed on the error branch
				swallowed := false
				if fnErrIdx >= 0 {
					for _, ev := range errVals {
						for _, ref := range liveRefs(ev) {
							bo, ok := ref.(*ssa.BinOp)
							if !ok || (bo.Op != token.NEQ && bo.Op != token.EQL) || !(isNilConst(bo.X) || isNilConst(bo.Y)) {
								continue
							}
							for _, r2 := range liveRefs(bo) {
								iff, ok := r2.(*ssa.If)
								if !ok {
									continue
								}
								errSucc := iff.Block().Succs[0]
								other := iff.Block().Succs[1]
								if bo.Op == token.EQL {
									errSucc, other = other, errSucc
								}
								if errSucc == other || len(errSucc.Preds) != 1 {
									continue // not a region owned by this test
								}
								for _, bb := range fn.Blocks {
									if !errSucc.Dominates(bb) {
										continue
									}
									// the error branch must not fall back into the normal flow
									for _, s := range bb.Succs {
										if !errSucc.Dominates(s) && !swallowed {
											swallowed = true
											r.Fail(key, p.Pos(iff.Pos()), "the branch taken when this call's error is non-nil falls through to the code after it instead of returning the error: the failure is dropped and the function carries on")
										}
									}
									ret, ok := terminator(bb).(*ssa.Return)
									if !ok {
										continue
									}
									if v := returnOperand(ret, fnErrIdx); v != nil && isNilConst(v) {
										swallowed = true
										r.Fail(key, p.Pos(ret.Pos()), fmt.Sprintf("on the branch where this call's error is non-nil the function returns a nil error (%s): the failure is swallowed and the caller proceeds as if translation/execution had succeeded", p.Pos(ret.Pos())))
									}
								}
							}
						}
					}
				}
				if !swallowed {
					r.Ok(key, pos, "")
				}
			}
		}
	}
}

// inCycle: b lies on a cycle of its function's control-flow graph.
func inCycle(b *ssa.BasicBlock) bool {
	seen := map[*ssa.BasicBlock]bool{}
	var w func(x *ssa.BasicBlock) bool
	w = func(x *ssa.BasicBlock) bool {
		for _, s := range x.Succs {
			if s == b {
				return true
			}
			if !seen[s] {
				seen[s] = true
				if w(s) {
					return true
				}
			}
		}
		return false
	}
	return w(b)
}

// ---------------------------------------------------------------------------
// emit sites

type emitSite struct {
	call     *ssa.Call
	op       string // opcode constant name ("" if not constant)
	lastOp   string // the last opcode the call emits (differs from op only for a helper that emits several)
	operands []ssa.Value
	known    bool      // operand list statically known
	posVal   ssa.Value // the value that carries the position of the instruction (the call; the first result of a helper that hands the position back)
	handed   bool      // a helper emitted it and handed the position back
}

// position: the value through which the emitted instruction's position travels.
func (e emitSite) position() ssa.Value {
	if e.posVal != nil {
		return e.posVal
	}
	return e.call
}

// handsBackPosition: g is a method of the compiler that emits a jump with a
// placeholder operand, does not patch it, and returns its position (first
// result) on every successful return: the caller has to patch it.
var handBackCache = map[*ssa.Function]*emitSite{}

func handsBackPosition(p *Program, a *anchors, g *ssa.Function) *emitSite {
	if g == nil || g == a.emit || g == a.compile || g == a.changeOperand || len(g.Blocks) == 0 || !recvNamed(g, "", "Eval") {
		return nil
	}
	if e, ok := handBackCache[g]; ok {
		return e
	}
	handBackCache[g] = nil
	rs := g.Signature.Results()
	if rs.Len() < 1 || rs.Len() > 2 || !isInt(rs.At(0).Type()) || isEmitHelper(p, a, g) {
		return nil
	}
	var src *emitSite
	for _, b := range g.Blocks {
		ret, ok := terminator(b).(*ssa.Return)
		if !ok || !isSuccessReturn(ret) {
			continue
		}
		os := origins(returnOperand(ret, 0))
		if len(os) != 1 {
			return nil
		}
		c, ok := os[0].(*ssa.Call)
		if !ok {
			return nil
		}
		e, ok := emitAt(p, a, c)
		if !ok || e.op == "" || !e.known || len(e.operands) != 1 {
			return nil
		}
		if _, isConst := e.operands[0].(*ssa.Const); !isConst {
			return nil
		}
		if src != nil && src.call != e.call {
			return nil
		}
		ee := e
		src = &ee
	}
	if src == nil {
		return nil
	}
	handBackCache[g] = src
	return src
}

// positionSources: the emits of fn, and the calls of helpers that emit a
// placeholder jump for fn and hand its position back.
func positionSources(p *Program, a *anchors, fn *ssa.Function) []emitSite {
	out := emitSites(p, a, fn)
	for _, b := range fn.Blocks {
		for _, ins := range b.Instrs {
			c, ok := ins.(*ssa.Call)
			if !ok {
				continue
			}
			src := handsBackPosition(p, a, c.Call.StaticCallee())
			if src == nil {
				continue
			}
			e := emitSite{call: c, op: src.op, lastOp: src.op, operands: src.operands, known: true, handed: true, posVal: c}
			if c.Call.Signature().Results().Len() > 1 {
				e.posVal = nil
				for _, ref := range *c.Referrers() {
					if ex, ok := ref.(*ssa.Extract); ok && ex.Index == 0 {
						e.posVal = ex
					}
				}
				if e.posVal == nil {
					e.posVal = c // the position is dropped: nothing will match it
				}
			}
			out = append(out, e)
		}
	}
	return out
}

// emitWrap: a method that does nothing but call the emitter once, with an
// opcode that is a constant or one of its own parameters and operands that
// are constants or its own parameters, and hands the position back.
type emitWrap struct {
	opIdx    int    // parameter index of the opcode, -1 when constant
	opConst  string // constant opcode
	operands []ssa.Value
	known    bool
}

var emitWrapCache = map[*ssa.Function]*emitWrap{}

func emitWrapperOf(p *Program, a *anchors, g *ssa.Function) *emitWrap {
	if g == nil || g == a.emit || g == a.compile || g == a.changeOperand || len(g.Blocks) == 0 || g.Signature.Recv() == nil {
		return nil
	}
	if w, ok := emitWrapCache[g]; ok {
		return w
	}
	emitWrapCache[g] = nil
	var call *ssa.Call
	for _, b := range g.Blocks {
		for _, ins := range b.Instrs {
			switch x := ins.(type) {
			case *ssa.Call:
				if x.Call.StaticCallee() == a.emit {
					if call != nil {
						return nil
					}
					call = x
				} else if _, isB := x.Call.Value.(*ssa.Builtin); !isB {
					return nil
				}
			case *ssa.Store:
				base := x.Addr
				if ia, ok := base.(*ssa.IndexAddr); ok {
					base = ia.X
				}
				if _, isAlloc := base.(*ssa.Alloc); !isAlloc {
					return nil
				}
			case *ssa.MapUpdate, *ssa.Defer, *ssa.Go, *ssa.If:
				return nil
			case *ssa.Return:
				if len(x.Results) > 1 {
					return nil
				}
			}
		}
	}
	if call == nil || len(call.Call.Args) < 3 {
		return nil
	}
	for _, b := range g.Blocks {
		if ret, ok := terminator(b).(*ssa.Return); ok && len(ret.Results) == 1 && ret.Results[0] != ssa.Value(call) {
			return nil
		}
	}
	w := &emitWrap{opIdx: -1}
	if name := p.Opcodes().ssaName(call.Call.Args[1]); name != "" {
		w.opConst = name
	} else {
		for i, prm := range g.Params {
			if call.Call.Args[1] == ssa.Value(prm) {
				w.opIdx = i
			}
		}
		if w.opIdx < 0 {
			return nil
		}
	}
	w.operands, w.known = varargsOf(call.Call.Args[2])
	for _, o := range w.operands {
		switch o.(type) {
		case *ssa.Const, *ssa.Parameter:
		default:
			return nil
		}
	}
	emitWrapCache[g] = w
	return w
}

// emitAt: the instruction emits code — a call of the emitter, of a method
// that only wraps it, or of a helper that back-patches and then emits.
func emitAt(p *Program, a *anchors, ins ssa.Instruction) (emitSite, bool) {
	c, ok := ins.(*ssa.Call)
	if !ok {
		return emitSite{}, false
	}
	g := c.Call.StaticCallee()
	if g == nil {
		return emitSite{}, false
	}
	oc := p.Opcodes()
	args := c.Call.Args
	if g == a.emit {
		e := emitSite{call: c}
		if len(args) >= 3 {
			e.op = oc.ssaName(args[1])
			e.lastOp = e.op
			e.operands, e.known = varargsOf(args[2])
		}
		return e, true
	}
	if w := emitWrapperOf(p, a, g); w != nil {
		e := emitSite{call: c, op: w.opConst, known: w.known}
		if w.opIdx >= 0 && w.opIdx < len(args) {
			e.op = oc.ssaName(args[w.opIdx])
		}
		e.lastOp = e.op
		for _, o := range w.operands {
			if prm, ok := o.(*ssa.Parameter); ok {
				for i, q := range g.Params {
					if q == prm && i < len(args) {
						o = args[i]
					}
				}
			}
			e.operands = append(e.operands, o)
		}
		return e, true
	}
	if w := patchWrapperOf(p, a, g); w != nil && len(w.afterEmits) > 0 {
		return emitSite{call: c, op: w.afterEmits[0], lastOp: w.afterEmits[len(w.afterEmits)-1], known: true, operands: nil}, true
	}
	return emitSite{}, false
}

func emitSites(p *Program, a *anchors, fn *ssa.Function) []emitSite {
	var out []emitSite
	for _, b := range fn.Blocks {
		for _, ins := range b.Instrs {
			if e, ok := emitAt(p, a, ins); ok {
				out = append(out, e)
			}
		}
	}
	return out
}

// isEmitHelper: g only wraps the emitter or the patcher (and is read at its
// call sites, not as a part of the compiler).
func isEmitHelper(p *Program, a *anchors, g *ssa.Function) bool {
	return emitWrapperOf(p, a, g) != nil || patchWrapperOf(p, a, g) != nil
}

// patchSite: one back-patch — a call of the patcher itself, or of a function
// that does nothing to the program but call the patcher with the position it
// was given (and the target it was given, or the current end of the program).
type patchSite struct {
	*ssa.Call
	pos    ssa.Value // the position of the operand that is overwritten
	target ssa.Value // the value written; nil when it is "here"
	here   bool      // the target is the length of the program at the call
	posArg int       // index of the position among the call's written arguments
	elems  bool      // pos is a slice: every element of it is patched
	after  []string  // opcodes the helper emits after patching
}

// origins of the patched position(s).
func (ps patchSite) origins() []ssa.Value {
	if ps.elems {
		return elemOrigins(ps.pos)
	}
	return origins(ps.pos)
}

// patchWrap: what a function that wraps the patcher does.
type patchWrap struct {
	posIdx     int  // parameter holding the position(s)
	elems      bool // … a slice of positions, all of them patched
	targetIdx  int  // parameter holding the target, -1 for "here"
	afterEmits []string
}

var patchWrapCache = map[*ssa.Function]*patchWrap{}

// patchWrapperOf: fn forwards the position it is given (or every position of
// the slice it is given) to the patcher — directly or through another such
// function — with the target it was given or the current end of the program,
// and does nothing else to the program except, afterwards, emit
// instructions with constant opcodes.
func patchWrapperOf(p *Program, a *anchors, fn *ssa.Function) *patchWrap {
	if fn == nil || fn == a.changeOperand || fn == a.emit || fn == a.compile || len(fn.Blocks) == 0 {
		return nil
	}
	if w, ok := patchWrapCache[fn]; ok {
		return w
	}
	patchWrapCache[fn] = nil
	field := instructionsField(a)
	w := &patchWrap{posIdx: -1, targetIdx: -1}
	paramIdx := func(v ssa.Value) int {
		for i, prm := range fn.Params {
			if v == ssa.Value(prm) {
				return i
			}
		}
		return -1
	}
	var patch *ssa.Call
	var emits []*ssa.Call
	for _, b := range fn.Blocks {
		for _, ins := range b.Instrs {
			switch x := ins.(type) {
			case *ssa.Call:
				cal := x.Call.StaticCallee()
				if _, isB := x.Call.Value.(*ssa.Builtin); isB {
					continue
				}
				if cal == nil {
					return nil
				}
				var inner *patchWrap
				if cal != a.changeOperand {
					inner = patchWrapperOf(p, a, cal)
				}
				switch {
				case cal == a.changeOperand && len(x.Call.Args) >= 3:
					if patch != nil {
						return nil
					}
					patch = x
					pos := x.Call.Args[1]
					if i := paramIdx(pos); i >= 0 {
						w.posIdx = i
					} else if ld, ok := pos.(*ssa.UnOp); ok && ld.Op == token.MUL {
						// every element of a slice parameter, in a loop from the first
						ia, ok := ld.X.(*ssa.IndexAddr)
						if !ok || paramIdx(ia.X) < 0 {
							return nil
						}
						_, c, init, step, ok := induction(ia.Index)
						k0, isC := constInt(init)
						if !ok || step != 1 || !isC || k0+c != 0 {
							return nil
						}
						w.posIdx, w.elems = paramIdx(ia.X), true
					} else {
						return nil
					}
					if i := paramIdx(x.Call.Args[2]); i >= 0 {
						w.targetIdx = i
					} else if _, isLen := isLenOfField(x.Call.Args[2], field); !isLen {
						return nil
					}
				case inner != nil:
					if patch != nil || inner.posIdx >= len(x.Call.Args) {
						return nil
					}
					patch = x
					i := paramIdx(x.Call.Args[inner.posIdx])
					if i < 0 {
						return nil
					}
					w.posIdx, w.elems = i, inner.elems
					if inner.targetIdx >= 0 {
						if inner.targetIdx >= len(x.Call.Args) {
							return nil
						}
						if j := paramIdx(x.Call.Args[inner.targetIdx]); j >= 0 {
							w.targetIdx = j
						} else if _, isLen := isLenOfField(x.Call.Args[inner.targetIdx], field); !isLen {
							return nil
						}
					}
					w.afterEmits = append(w.afterEmits, inner.afterEmits...)
				default:
					if e, ok := emitAtNoPatch(p, a, x); ok && e.op != "" {
						emits = append(emits, x)
						continue
					}
					return nil // does something else as well
				}
			case *ssa.Store:
				base := x.Addr
				if ia, ok := base.(*ssa.IndexAddr); ok {
					base = ia.X
				}
				if _, isAlloc := base.(*ssa.Alloc); !isAlloc {
					return nil
				}
			case *ssa.MapUpdate, *ssa.Defer, *ssa.Go:
				return nil
			}
		}
	}
	if patch == nil || w.posIdx < 0 {
		return nil
	}
	// emits come after the patch, on the straight line to the return
	for _, e := range emits {
		if !(patch.Block() == e.Block() && instrIndex(patch) < instrIndex(e)) && !(patch.Block() != e.Block() && blockReaches(patch.Block(), e.Block(), nil) && !blockReaches(e.Block(), patch.Block(), nil) && e.Block().Dominates(lastReturnBlock(fn))) {
			return nil
		}
		es, _ := emitAtNoPatch(p, a, e)
		w.afterEmits = append(w.afterEmits, es.op)
	}
	patchWrapCache[fn] = w
	return w
}

func lastReturnBlock(fn *ssa.Function) *ssa.BasicBlock {
	var out *ssa.BasicBlock
	for _, b := range fn.Blocks {
		if _, ok := terminator(b).(*ssa.Return); ok {
			out = b
		}
	}
	return out
}

// emitAtNoPatch: emitAt without the helpers that patch (used while deciding
// whether a function is such a helper).
func emitAtNoPatch(p *Program, a *anchors, c *ssa.Call) (emitSite, bool) {
	g := c.Call.StaticCallee()
	if g == a.emit || emitWrapperOf(p, a, g) != nil {
		return emitAt(p, a, c)
	}
	return emitSite{}, false
}

// patchCalls returns the back-patches of fn.
func patchCalls(a *anchors, fn *ssa.Function) []patchSite {
	var out []patchSite
	field := instructionsField(a)
	p := curProgram
	for _, b := range fn.Blocks {
		for _, ins := range b.Instrs {
			c, ok := ins.(*ssa.Call)
			if !ok {
				continue
			}
			cal := c.Call.StaticCallee()
			if cal == nil {
				continue
			}
			if cal == a.changeOperand && len(c.Call.Args) >= 3 {
				ps := patchSite{Call: c, pos: c.Call.Args[1], target: c.Call.Args[2], posArg: 0}
				if _, isLen := isLenOfField(c.Call.Args[2], field); isLen {
					ps.here = true
				}
				out = append(out, ps)
				continue
			}
			if w := patchWrapperOf(p, a, cal); w != nil && w.posIdx < len(c.Call.Args) {
				ps := patchSite{Call: c, pos: c.Call.Args[w.posIdx], posArg: w.posIdx, elems: w.elems, after: w.afterEmits}
				if cal.Signature.Recv() != nil {
					ps.posArg = w.posIdx - 1
				}
				if w.targetIdx >= 0 && w.targetIdx < len(c.Call.Args) {
					ps.target = c.Call.Args[w.targetIdx]
					if _, isLen := isLenOfField(ps.target, field); isLen {
						ps.here = true
					}
				} else {
					ps.here = true
				}
				out = append(out, ps)
			}
		}
	}
	return out
}

// patchedOpcodes: opcode names of the emits whose position flows into a
// back-patch, plus positions of patches whose origin could not be traced.
func patchedOpcodes(p *Program, a *anchors) (map[string]bool, []string) {
	ops := map[string]bool{}
	var undec []string
	for _, fn := range compilerFamily(p, a) {
		byCall := map[ssa.Value]emitSite{}
		for _, e := range positionSources(p, a, fn) {
			byCall[e.position()] = e
		}
		for _, pc := range patchCalls(a, fn) {
			for _, o := range pc.origins() {
				if e, ok := byCall[o]; ok && e.op != "" {
					ops[e.op] = true
				} else {
					undec = append(undec, p.Pos(pc.Pos()))
				}
			}
		}
	}
	return ops, undec
}

func rulePatchAll(p *Program, r *Reporter) {
	a := needAnchors(p, r)
	if a == nil {
		return
	}
	J, ok := vmJumpSet(p, a)
	if !ok {
		r.Undecided("VM jump set", "-", "cannot determine the jump opcodes")
		return
	}
	for _, fn := range compilerFamily(p, a) {
		patchAllIn(p, r, a, fn, J)
	}
}

func patchAllIn(p *Program, r *Reporter, a *anchors, fn *ssa.Function, J map[string]bool) {
	patches := patchCalls(a, fn)
	// for each patch: which emit calls may be its position, and whether that
	// came through a slice (loop idiom)
	type patchInfo struct {
		call    *ssa.Call
		barrier *ssa.BasicBlock // block that, once entered, performs the patch
	}
	patchOf := map[ssa.Value][]patchInfo{}
	for _, pc := range patches {
		direct := pc.elems // a helper that patches the whole list does so at the call
		for _, o := range pc.origins() {
			if o == pc.pos {
				direct = true
			}
			pi := patchInfo{call: pc.Call, barrier: pc.Block()}
			if !direct {
				// loop idiom: the patch happens once the loop is entered; use the
				// nearest dominating loop header as the barrier.
				for d := pc.Block(); d != nil; d = d.Idom() {
					isHeader := false
					for _, pr := range d.Preds {
						if d.Dominates(pr) {
							isHeader = true
						}
					}
					if isHeader {
						pi.barrier = d
						break
					}
				}
			}
			patchOf[o] = append(patchOf[o], pi)
		}
	}
	handedBack := map[*ssa.Call]bool{}
	if src := handsBackPosition(p, a, fn); src != nil {
		handedBack[src.call] = true
	}
	for _, e := range positionSources(p, a, fn) {
		if !J[e.op] {
			continue
		}
		if !e.known || len(e.operands) != 1 {
			continue
		}
		if _, isConst := e.operands[0].(*ssa.Const); !isConst {
			continue // operand is a real target already (backward jump)
		}
		key := siteKey(p, fn, e.call.Pos(), "placeholder "+e.op)
		if e.handed {
			key = siteKey(p, fn, e.call.Pos(), "placeholder "+e.op+" handed back by "+e.call.Call.StaticCallee().Name())
		}
		pis := patchOf[e.position()]
		if len(pis) == 0 && handedBack[e.call] {
			// the function returns the position: each of its callers is judged
			// with the call as the placeholder
			n := 0
			for _, site := range staticCallSites(p, fn) {
				if site.Parent() != nil {
					n++
				}
			}
			if n > 0 {
				r.OkNT(key, p.Pos(e.call.Pos()), fmt.Sprintf("the position is returned on every successful path: patched by the caller (%d call site(s), judged there)", n))
				continue
			}
		}
		if len(pis) == 0 {
			r.Fail(key, p.Pos(e.call.Pos()), "this jump is emitted with a placeholder operand and its position never reaches a back-patch: at run time it jumps to the placeholder value")
			continue
		}
		barrier := map[*ssa.BasicBlock]bool{}
		callBarrier := map[ssa.Instruction]bool{}
		for _, pi := range pis {
			if pi.barrier == pi.call.Block() {
				callBarrier[pi.call] = true
			} else {
				barrier[pi.barrier] = true
			}
		}
		// any path from the emit to a successful return that avoids the patch?
		var leak token.Pos
		seenBlock := map[*ssa.BasicBlock]bool{}
		var walk func(b *ssa.BasicBlock, i int)
		walk = func(b *ssa.BasicBlock, i int) {
			if i == 0 && barrier[b] {
				return
			}
			for ; i < len(b.Instrs); i++ {
				ins := b.Instrs[i]
				if callBarrier[ins] {
					return
				}
				if ret, ok := ins.(*ssa.Return); ok {
					if isSuccessReturn(ret) && !leak.IsValid() {
						leak = ret.Pos()
						if !leak.IsValid() {
							leak = fn.Pos()
						}
					}
					return
				}
			}
			for _, s := range b.Succs {
				if !seenBlock[s] {
					seenBlock[s] = true
					walk(s, 0)
				}
			}
		}
		walk(e.call.Block(), instrIndex(e.call)+1)
		if leak.IsValid() {
			r.Fail(key, p.Pos(e.call.Pos()), "there is a path from this placeholder jump to a successful return of the compiler that performs no back-patch of it (exit at "+p.Pos(leak)+")")
		} else {
			r.OkNT(key, p.Pos(e.call.Pos()), fmt.Sprintf("patched on every successful path (%d patch site(s))", len(pis)))
		}
	}
}

// ---------------------------------------------------------------------------
// R-JOINPH

// isLenOfInstructions: v is len(e.<instructions field>) (the emitter's output).
func instructionsField(a *anchors) string {
	// the field emit appends to: the Store in emit — or in the part of it
	// that does the appending, when emit is split into encoding and
	// appending — whose value is an append
	for _, f := range emitterParts(a) {
		for _, b := range f.Blocks {
			for _, ins := range b.Instrs {
				if st, ok := ins.(*ssa.Store); ok {
					if _, isApp := isBuiltinCall(st.Val, "append"); isApp {
						if k := fieldKey(st.Addr); k != "" {
							return k
						}
					}
				}
			}
		}
	}
	return ""
}

// emitterParts: the emitter and the functions of the compiler it is made of —
// those it calls that nothing else calls (encode, append).
func emitterParts(a *anchors) []*ssa.Function {
	out := []*ssa.Function{a.emit}
	if curProgram == nil {
		return out
	}
	seen := map[*ssa.Function]bool{a.emit: true}
	for i := 0; i < len(out) && i < 6; i++ {
		for _, b := range out[i].Blocks {
			for _, ins := range b.Instrs {
				cc := callOf(ins)
				if cc == nil || cc.StaticCallee() == nil {
					continue
				}
				g := cc.StaticCallee()
				if seen[g] || fnPkg(g) == nil || fnPkg(g).Pkg.Path() != Mod || len(g.Blocks) == 0 {
					continue
				}
				only := true
				for _, s := range staticCallSites(curProgram, g) {
					if !seen[top(s.Parent())] {
						only = false
					}
				}
				if only {
					seen[g] = true
					out = append(out, g)
				}
			}
		}
	}
	return out
}

func isLenOfField(v ssa.Value, field string) (*ssa.Call, bool) {
	c, ok := isBuiltinCall(v, "len")
	if !ok {
		return nil, false
	}
	u, ok := c.Call.Args[0].(*ssa.UnOp)
	if !ok || u.Op != token.MUL {
		return nil, false
	}
	return c, fieldKey(u.X) == field
}

func ruleJoinPH(p *Program, r *Reporter) {
	a := needAnchors(p, r)
	if a == nil {
		return
	}
	field := instructionsField(a)
	if field == "" {
		r.Undecided("instructions field", p.Pos(a.emit.Pos()), "cannot find the field the emitter appends to")
		return
	}
	for _, fn := range compilerFamily(p, a) {
		joinPHIn(p, r, a, fn, field)
	}
	foldWindowRule(p, r)
}

func joinPHIn(p *Program, r *Reporter, a *anchors, fn *ssa.Function, field string) {
	emits := map[ssa.Instruction]emitSite{}
	for _, e := range emitSites(p, a, fn) {
		emits[e.call] = e
	}
	isCompile := func(ins ssa.Instruction) bool {
		_, ok := staticCalleeIs(ins, a.compile)
		return ok
	}
	patches := patchCalls(a, fn)
	for _, pc := range patches {
		// the point at which the label is taken: where the length of the
		// program is read — at the call itself when a helper reads it
		var lenCall ssa.Instruction = pc.Call
		if !pc.here {
			// operand is not "here": a backward target or a saved label
			if _, isC := pc.target.(*ssa.Const); isC {
				r.Undecided(siteKey(p, fn, pc.Pos(), "patch with constant"), p.Pos(pc.Pos()), "back-patch with a constant target")
			}
			continue
		}
		if pc.target != nil {
			if lc, ok := isLenOfField(pc.target, field); ok {
				lenCall = lc
			}
		}
		key := siteKey(p, fn, pc.Pos(), "label patched into "+posVarName(p, fn, pc))
		// final on a path? a later patch of the same position value
		posVal := pc.pos
		laterSame := func(ins ssa.Instruction) bool {
			for _, other := range patches {
				if ssa.Instruction(other.Call) == ins && other.Call != pc.Call && other.pos == posVal {
					return true
				}
			}
			return false
		}
		// Explore every path from the label point to an exit of the compiler.
		// A path on which the same position is patched again later is dropped:
		// this patch is not final there (the `if` clause patches provisionally
		// and again when an else arm exists).  For the others record the first
		// emit (a) and the first emitting action, compile calls included (b).
		next := map[string]bool{}  // first emit on final paths
		first := map[string]bool{} // first action on final paths
		reachesExit := false
		type st struct {
			b      *ssa.BasicBlock
			fe, fa string
		}
		seenSt := map[st]bool{}
		emitsOf := map[*ssa.Function]map[ssa.Instruction]emitSite{fn: emits}
		family := map[*ssa.Function]bool{}
		for _, g := range compilerFamily(p, a) {
			family[g] = true
		}
		var explore func(f *ssa.Function, b *ssa.BasicBlock, i int, fe, fa string, depth int)
		explore = func(f *ssa.Function, b *ssa.BasicBlock, i int, fe, fa string, depth int) {
			em := emitsOf[f]
			if em == nil {
				em = map[ssa.Instruction]emitSite{}
				for _, e := range emitSites(p, a, f) {
					em[e.call] = e
				}
				emitsOf[f] = em
			}
			for ; i < len(b.Instrs); i++ {
				ins := b.Instrs[i]
				if f == fn && laterSame(ins) {
					return
				}
				if e, ok := em[ins]; ok {
					if fe == "" {
						fe = "emit " + e.op
					}
					if fa == "" {
						fa = "emit " + e.op
					}
				} else if isCompile(ins) {
					if fa == "" {
						fa = "<compile>"
					}
				} else if cc := callOf(ins); cc != nil && family[cc.StaticCallee()] && cc.StaticCallee() != a.compile {
					// a part of the compiler kept in a function of its own: what
					// it does first
					fas, mustEmit := firstActions(p, a, cc.StaticCallee())
					if fa == "" && len(fas) == 1 && !fas["<exit>"] {
						for k := range fas {
							fa = k
						}
					} else if fa == "" && !fas["<exit>"] {
						fa = "<several>"
					}
					if fe == "" && mustEmit != "" {
						fe = mustEmit
					}
				} else if ret, ok := ins.(*ssa.Return); ok {
					if isSuccessReturn(ret) {
						// a helper's return continues after each of its calls
						if f != a.compile && depth < 3 && (fe == "" || fa == "") {
							n := 0
							for _, site := range staticCallSites(p, f) {
								if g := site.Parent(); g != nil && family[g] {
									n++
									explore(g, site.Block(), instrIndex(site.(ssa.Instruction))+1, fe, fa, depth+1)
								}
							}
							if n > 0 {
								return
							}
						}
						if fe == "" {
							fe = "<exit>"
							reachesExit = true
						}
						if fa == "" {
							fa = "<exit>"
						}
						next[fe] = true
						first[fa] = true
					}
					return
				}
			}
			for _, sc := range b.Succs {
				k := st{sc, fe, fa}
				if !seenSt[k] {
					seenSt[k] = true
					explore(f, sc, 0, fe, fa, depth)
				}
			}
		}
		if len(pc.after) > 0 {
			// the helper that patches goes on to emit: that is what follows the label
			explore(fn, lenCall.Block(), instrIndex(lenCall)+1, "emit "+pc.after[0], "emit "+pc.after[0], 0)
		} else {
			explore(fn, lenCall.Block(), instrIndex(lenCall)+1, "", "", 0)
		}
		if len(first) == 0 {
			// never final: every path re-patches
			r.OkNT(key+" (provisional)", p.Pos(pc.Pos()), "re-patched on every path")
			continue
		}
		// last action before the label
		prev := map[string]bool{}
		walkBackward(lenCall, func(ins ssa.Instruction) bool {
			if e, ok := emits[ins]; ok {
				prev["emit "+e.lastOp] = true
				return true
			}
			if isCompile(ins) {
				prev["<compile>"] = true
				return true
			}
			return false
		}, func() { prev["<entry>"] = true })

		if reachesExit {
			r.Fail(key+" (a)", p.Pos(pc.Pos()), "after this label is taken there is a path to the end of the compiler on which no further instruction is emitted: when the construct is the last thing in a body the jump lands past the end of the program (next actions: "+setStr(next)+")")
		} else {
			r.OkNT(key+" (a)", p.Pos(pc.Pos()), "an instruction follows on every path: "+setStr(next))
		}
		onlyJumpBefore := len(prev) > 0
		for k := range prev {
			if k != "emit OpJump" {
				onlyJumpBefore = false
			}
		}
		onlyPlaceholderAfter := len(first) > 0
		for k := range first {
			if k != "emit OpPlaceholder" {
				onlyPlaceholderAfter = false
			}
		}
		if onlyJumpBefore || onlyPlaceholderAfter {
			r.OkNT(key+" (b)", p.Pos(pc.Pos()), fmt.Sprintf("before=%s after=%s", setStr(prev), setStr(first)))
		} else {
			r.Fail(key+" (b)", p.Pos(pc.Pos()), fmt.Sprintf("the label is neither directly after an unconditional jump (before=%s) nor at a placeholder instruction (after=%s): the constant folder can merge a push before the label with pushes/operators after it, changing the value computed on the path that jumps here", setStr(prev), setStr(first)))
		}
	}
}

// posVarName names the position variable of a patch from the syntax.
func posVarName(p *Program, fn *ssa.Function, pc patchSite) string {
	if ce := callExprAt(fn.Syntax(), pc.Pos()); ce != nil && pc.posArg >= 0 && pc.posArg < len(ce.Args) {
		return types.ExprString(ce.Args[pc.posArg])
	}
	return "?"
}

// foldWindowRule: the optimizer half of R-JOINPH (b).
func foldWindowRule(p *Program, r *Reporter) {
	vmPk := p.ByPath[Mod+"/vm"]
	info := vmPk.TypesInfo
	foundFold, foundJump := false, false
	for _, f := range vmPk.Syntax {
		ast.Inspect(f, func(n ast.Node) bool {
			flBody, sig := callbackBody(info, n)
			if flBody == nil {
				return true
			}
			// the walker callbacks: func(int, code.Opcode, interface{}) (bool, error)
			if sig.Params().Len() != 3 || !isOpcodeType(sig.Params().At(1).Type()) {
				return true
			}
			fl := &ast.FuncLit{Body: flBody}
			opParam := sig.Params().At(1)
			var sw *ast.SwitchStmt
			for _, st := range fl.Body.List {
				if s, ok := st.(*ast.SwitchStmt); ok && s.Tag != nil {
					if id, ok := ast.Unparen(s.Tag).(*ast.Ident); ok && info.Uses[id] == opParam {
						sw = s
					}
				}
			}
			if sw == nil {
				return true
			}
			// folding pass: has a clause for OpPush that appends to a slice
			var window types.Object
			named := map[string]bool{}
			var def *ast.CaseClause
			for _, cc := range sw.Body.List {
				cl := cc.(*ast.CaseClause)
				if cl.List == nil {
					def = cl
				}
				for _, e := range cl.List {
					n := opConstName(info, e)
					named[n] = true
					if n == "OpPush" {
						for _, st := range cl.Body {
							if as, ok := st.(*ast.AssignStmt); ok && len(as.Lhs) == 1 {
								if ce, ok := as.Rhs[0].(*ast.CallExpr); ok {
									if id, ok := ce.Fun.(*ast.Ident); ok && id.Name == "append" {
										if o := lhsObject(info, as.Lhs[0]); o != nil {
											window = o
										}
									}
								}
							}
						}
					}
				}
			}
			if window != nil {
				foundFold = true
				key := "folding pass window reset"
				resets := false
				if def != nil {
					for _, st := range def.Body {
						if as, ok := st.(*ast.AssignStmt); ok && len(as.Lhs) == 1 {
							if lhsObject(info, as.Lhs[0]) == window {
								if tv := info.Types[as.Rhs[0]]; tv.IsNil() {
									resets = true
								}
							}
						}
					}
				}
				if !resets {
					// not written as a default clause: asked of the flow graph
					if f, bad, n := foldWindowSSA(p); f != nil && n > 0 && len(bad) == 0 {
						resets = true
					}
				}
				r.Check(resets, key, p.Pos(sw.Pos()), "the window is emptied at every opcode the pass does not handle", "the constant-folding pass must forget its collected pushes at every opcode it does not handle (default clause assigning nil to the window)")
				for _, op := range []string{"OpJump", "OpJumpIfFalse", "OpPlaceholder"} {
					r.Check(!named[op], "folding pass does not see through "+op, p.Pos(sw.Pos()), "not named: resets the window", op+" is named in a case of the folding pass: the window survives a jump/label boundary")
				}
				return true
			}
			// jump pass: clause for OpJumpIfFalse comparing a "previous opcode" var
			if named["OpJumpIfFalse"] && !named["OpReturn"] && !named["OpNop"] {
				// find `prev = opParam` assignment after the switch
				foundJump = true
				updated := false
				idx := -1
				for i, st := range fl.Body.List {
					if st == ast.Stmt(sw) {
						idx = i
					}
				}
				for _, st := range fl.Body.List[idx+1:] {
					if as, ok := st.(*ast.AssignStmt); ok && len(as.Lhs) == 1 && len(as.Rhs) == 1 {
						if rid, ok := as.Rhs[0].(*ast.Ident); ok && info.Uses[rid] == opParam {
							updated = true
						}
					}
				}
				r.Check(updated, "jump pass tracks the previous opcode for every instruction", p.Pos(sw.Pos()), "assignment after the switch", "the jump-simplification pass must record every opcode as 'previous' (unconditional assignment after its switch); otherwise a stale OpTrue/OpFalse is paired with a later conditional jump")
			}
			return true
		})
	}
	if !foundFold {
		r.Undecided("folding pass", "-", "cannot find the constant-folding callback (switch over the opcode with an OpPush case appending to a window)")
	}
	if !foundJump {
		// not written as a switch over the opcode: look for the callback that
		// keeps the previous opcode in a captured variable, and check on the
		// flow graph that it is recorded on every path that lets the walk go on
		for _, fn := range p.LibFns {
			if fn.Parent() == nil || !isWalkerCallback(fn) || fnPkg(fn).Pkg.Path() != Mod+"/vm" || len(fn.Params) < 2 {
				continue
			}
			opPrm := fn.Params[1]
			var prev *ssa.FreeVar
			storeBlocks := map[*ssa.BasicBlock]bool{}
			for _, b := range fn.Blocks {
				for _, ins := range b.Instrs {
					if st, ok := ins.(*ssa.Store); ok && st.Val == ssa.Value(opPrm) {
						if fv, ok := st.Addr.(*ssa.FreeVar); ok {
							prev = fv
							storeBlocks[b] = true
						}
					}
				}
			}
			if prev == nil {
				continue
			}
			foundJump = true
			updated := true
			for _, b := range fn.Blocks {
				ret, ok := terminator(b).(*ssa.Return)
				if !ok || len(ret.Results) == 0 {
					continue
				}
				if c, ok := ret.Results[0].(*ssa.Const); !ok || c.Value == nil || c.Value.Kind() != constant.Bool || !constant.BoolVal(c.Value) {
					continue // the walk stops here: nothing follows
				}
				seen := map[*ssa.BasicBlock]bool{}
				var back func(x *ssa.BasicBlock) bool
				back = func(x *ssa.BasicBlock) bool {
					if storeBlocks[x] {
						return true
					}
					if len(x.Preds) == 0 {
						return false
					}
					for _, pd := range x.Preds {
						if seen[pd] {
							continue
						}
						seen[pd] = true
						if !back(pd) {
							return false
						}
					}
					return true
				}
				if !back(b) {
					updated = false
				}
			}
			r.Check(updated, "jump pass tracks the previous opcode for every instruction", p.Pos(fn.Pos()), "recorded on every path on which the walk continues", "the jump-simplification pass must record the opcode it has just seen on every path on which the walk goes on; otherwise a stale `true` or `false` from further back is taken for the condition of a later conditional jump")
		}
	}
	if !foundJump {
		r.Undecided("jump pass", "-", "cannot find the jump-simplification callback")
	}
}

// ---------------------------------------------------------------------------
// R-LOOPHEAD

func ruleLoopHead(p *Program, r *Reporter) {
	a := needAnchors(p, r)
	if a == nil {
		return
	}
	field := instructionsField(a)
	for _, fn := range compilerFamily(p, a) {
		loopHeadIn(p, r, a, fn, field)
	}
}

func loopHeadIn(p *Program, r *Reporter, a *anchors, fn *ssa.Function, field string) {
	emits := emitSites(p, a, fn)
	byCall := map[ssa.Instruction]emitSite{}
	for _, e := range emits {
		byCall[e.call] = e
	}
	for _, e := range emits {
		if e.op != "OpJump" || !e.known || len(e.operands) != 1 {
			continue
		}
		if _, isConst := e.operands[0].(*ssa.Const); isConst {
			continue
		}
		snap, ok := isLenOfField(e.operands[0], field)
		key := siteKey(p, fn, e.call.Pos(), "backward jump target")
		if !ok {
			r.Undecided(key, p.Pos(e.call.Pos()), "jump operand is neither a placeholder nor a recorded position")
			continue
		}
		if !dominatesInstr(snap, e.call) {
			r.Fail(key, p.Pos(e.call.Pos()), "the position used as jump target is not recorded on every path before the jump is emitted")
			continue
		}
		// what lies between the snapshot and the jump: the re-executed code
		var between []string
		hasCond := false
		walkForward(snap, func(ins ssa.Instruction) bool {
			if ins == ssa.Instruction(e.call) {
				return true
			}
			if x, ok := byCall[ins]; ok {
				between = append(between, x.op)
				if x.op == "OpJumpIfFalse" {
					hasCond = true
				}
			}
			if _, ok := staticCalleeIs(ins, a.compile); ok {
				between = append(between, "<compile>")
			} else if c, ok := ins.(*ssa.Call); ok && c.Call.StaticCallee() != nil && c.Call.StaticCallee() != fn && fnPkg(c.Call.StaticCallee()) != nil && fnPkg(c.Call.StaticCallee()).Pkg.Path() == Mod && !isEmitHelper(p, a, c.Call.StaticCallee()) {
				// a part of the translation kept in a function of its own (the
				// "condition, jump, guarded code" prologue): what it does, in order
				h := c.Call.StaticCallee()
				for _, hb := range h.Blocks {
					for _, hi := range hb.Instrs {
						if es, ok := emitAt(p, a, hi); ok && es.op != "" {
							between = append(between, es.op)
							if es.op == "OpJumpIfFalse" {
								hasCond = true
							}
						}
						if _, ok := staticCalleeIs(hi, a.compile); ok {
							between = append(between, "<compile>")
						}
					}
				}
			}
			return false
		})
		// what was emitted before the snapshot (must not be re-executed)
		resetBefore, nextBefore := false, false
		walkBackward(snap, func(ins ssa.Instruction) bool {
			if x, ok := byCall[ins]; ok {
				if x.op == "OpIterationReset" {
					resetBefore = true
				}
				if x.op == "OpIterationNext" {
					nextBefore = true
				}
				return true
			}
			return false
		}, nil)
		isForeach := false
		for _, x := range between {
			if x == "OpIterationNext" {
				isForeach = true
			}
		}
		resetInside := false
		for _, x := range between {
			if x == "OpIterationReset" {
				resetInside = true
			}
		}
		switch {
		case !hasCond:
			r.Fail(key, p.Pos(e.call.Pos()), "the loop's exit test (conditional jump) is not between the recorded head and the backward jump: the loop would never re-test its condition")
		case resetInside:
			r.Fail(key, p.Pos(e.call.Pos()), "the iterator reset lies inside the repeated region: the loop restarts forever")
		case nextBefore && !isForeach:
			r.Fail(key, p.Pos(e.call.Pos()), "the iterator step lies before the loop head: elements are not advanced per iteration")
		case isForeach && !resetBefore:
			r.Fail(key, p.Pos(e.call.Pos()), "foreach head is not directly after the iterator reset")
		default:
			// the first thing re-executed must come right after the snapshot: the
			// condition (while) or the name pushes + iterator step (foreach)
			firstIsCompile := len(between) > 0 && between[0] == "<compile>"
			if isForeach || firstIsCompile {
				r.OkNT(key, p.Pos(e.call.Pos()), "repeated region: "+strings.Join(between, " "))
			} else {
				r.Fail(key, p.Pos(e.call.Pos()), "the loop head is recorded after the condition was compiled: the condition is not re-evaluated (repeated region: "+strings.Join(between, " ")+")")
			}
		}
	}
}

// ---------------------------------------------------------------------------
// R-OPBOUNDARY

func dependsOnLen(v ssa.Value, depth int, seen map[ssa.Value]bool) bool {
	if v == nil || seen[v] || depth > 12 {
		return false
	}
	seen[v] = true
	switch x := v.(type) {
	case *ssa.Call:
		if _, ok := isBuiltinCall(x, "len"); ok {
			return true
		}
	case *ssa.BinOp:
		return dependsOnLen(x.X, depth+1, seen) || dependsOnLen(x.Y, depth+1, seen)
	case *ssa.Phi:
		for _, e := range x.Edges {
			if dependsOnLen(e, depth+1, seen) {
				return true
			}
		}
	case *ssa.Convert:
		return dependsOnLen(x.X, depth+1, seen)
	case *ssa.ChangeType:
		return dependsOnLen(x.X, depth+1, seen)
	case *ssa.UnOp:
		if x.Op == token.MUL {
			if al, ok := x.X.(*ssa.Alloc); ok {
				for _, ref := range *al.Referrers() {
					if st, ok := ref.(*ssa.Store); ok && st.Addr == al && dependsOnLen(st.Val, depth+1, seen) {
						return true
					}
				}
			}
		}
	}
	return false
}

func ruleOpBoundary(p *Program, r *Reporter) {
	for _, fn := range p.LibFns {
		for _, b := range fn.Blocks {
			for _, ins := range b.Instrs {
				var x ssa.Value
				var t types.Type
				switch c := ins.(type) {
				case *ssa.Convert:
					x, t = c.X, c.Type()
				case *ssa.ChangeType:
					x, t = c.X, c.Type()
				default:
					continue
				}
				if !isOpcodeType(t) {
					continue
				}
				ld, ok := x.(*ssa.UnOp)
				if !ok || ld.Op != token.MUL {
					continue
				}
				ia, ok := ld.X.(*ssa.IndexAddr)
				if !ok {
					continue
				}
				key := siteKey(p, fn, ins.Pos(), "opcode read")
				if dependsOnLen(ia.Index, 0, map[ssa.Value]bool{}) {
					r.Fail(key, p.Pos(ins.Pos()), "a byte at an index computed from the length of the program is interpreted as an opcode; the last byte may be the low byte of an operand (e.g. the integer 24 has the value of the return opcode)")
				} else {
					r.OkNT(key, p.Pos(ins.Pos()), "index is an instruction pointer (not derived from len)")
				}
			}
		}
	}
}

// ---------------------------------------------------------------------------
// R-NARROW

// narrowOK: table of uint16 writers that need no guard, with the reason.
var narrowOK = map[string]string{
	"vm.(*VM).removeNOPs/new jump target": "the value is an entry of the old→new offset map; new offsets are never larger than the old ones, which were read from 16-bit operands",
}

// offsetMapEntry: the value is the result of a lookup in a map[int]int.
func offsetMapEntry(v ssa.Value) bool {
	if ex, ok := v.(*ssa.Extract); ok {
		v = ex.Tuple
	}
	lk, ok := v.(*ssa.Lookup)
	if !ok {
		return false
	}
	mt, ok := lk.X.Type().Underlying().(*types.Map)
	return ok && isInt(mt.Key()) && isInt(mt.Elem())
}

func ruleNarrow(p *Program, r *Reporter) {
	for _, fn := range p.LibFns {
		for _, b := range fn.Blocks {
			for _, ins := range b.Instrs {
				call, ok := ins.(*ssa.Call)
				if !ok {
					continue
				}
				isPut := false
				if call.Call.IsInvoke() {
					isPut = call.Call.Method.Name() == "PutUint16"
				} else if c := call.Call.StaticCallee(); c != nil {
					isPut = c.Name() == "PutUint16"
				}
				if !isPut {
					continue
				}
				arg := call.Call.Args[len(call.Call.Args)-1]
				if hc, isCall := arg.(*ssa.Call); isCall {
					// narrowing delegated to a helper of the module
					key := p.FnName(fn) + "/16-bit write of " + describeVal(p, fn, call)
					ok, why := narrowHelperOK(p, hc)
					if ok {
						r.OkNT(key, p.Pos(call.Pos()), why)
					} else {
						r.Fail(key, p.Pos(call.Pos()), why)
					}
					continue
				}
				if ex, isEx := arg.(*ssa.Extract); isEx && ex.Index == 0 {
					if hc, isCall := ex.Tuple.(*ssa.Call); isCall {
						// narrowing delegated to a helper that says whether the value
						// fitted: the "no" must end up in a record that Prepare reports
						key := p.FnName(fn) + "/16-bit write of " + describeVal(p, fn, call)
						ok, why := narrowReportingHelperOK(p, hc)
						if ok {
							r.OkNT(key, p.Pos(call.Pos()), why)
						} else {
							r.Fail(key, p.Pos(call.Pos()), why)
						}
						continue
					}
				}
				conv, ok := arg.(*ssa.Convert)
				if !ok {
					r.Undecided(siteKey(p, fn, call.Pos(), "16-bit write"), p.Pos(call.Pos()), "value written is not a conversion")
					continue
				}
				src := conv.X
				what := "16-bit write of " + describeVal(p, fn, call)
				key := p.FnName(fn) + "/" + what
				// (1) re-encoding of a decoded operand
				if ta, ok := src.(*ssa.TypeAssert); ok {
					if _, isParam := ta.X.(*ssa.Parameter); isParam {
						r.OkNT(key, p.Pos(call.Pos()), "re-encodes the operand the walker decoded from 16 bits")
						continue
					}
				}
				// (2) dominated by a range test on the same value
				if guardedByUpperBound(src, call) {
					r.OkNT(key, p.Pos(call.Pos()), "dominated by an upper-bound test on the value")
					continue
				}
				// (3) the value is a parameter, and every caller hands in a value it
				// has tested against an upper bound
				if prm, isParam := src.(*ssa.Parameter); isParam {
					idx := -1
					for i, q := range fn.Params {
						if q == prm {
							idx = i
						}
					}
					sites, all := 0, true
					for _, g := range p.LibFns {
						for _, gb := range g.Blocks {
							for _, gi := range gb.Instrs {
								c, ok := staticCalleeIs(gi, fn)
								if !ok || idx < 0 || idx >= len(c.Call.Args) {
									continue
								}
								sites++
								if !guardedByUpperBound(c.Call.Args[idx], c) {
									all = false
								}
							}
						}
					}
					if sites > 0 && all {
						r.OkNT(key, p.Pos(call.Pos()), fmt.Sprintf("the value is handed in by %d caller(s), each under an upper-bound test on it", sites))
						continue
					}
				}
				if _, isExt := src.(*ssa.Extract); isExt || isMapLookup(src) {
					k2 := p.FnName(fn) + "/new jump target"
					if why, ok := narrowOK[k2]; ok {
						r.OkNT(key, p.Pos(call.Pos()), "allowed: "+why)
						continue
					}
					// the same listed construct, wherever its text sits: an entry of
					// a map from old to new instruction offsets (int → int), in the
					// optimizer's package
					if offsetMapEntry(src) && fnPkg(fn) != nil && fnPkg(fn).Pkg.Path() == Mod+"/vm" {
						r.OkNT(key, p.Pos(call.Pos()), "allowed: "+narrowOK["vm.(*VM).removeNOPs/new jump target"])
						continue
					}
				}
				r.Fail(key, p.Pos(call.Pos()), "an int is truncated to 16 bits with no range check in this function: a program with more than 65535 bytes/constants/elements is accepted and then mis-executes")
			}
		}
	}
}

// narrowHelperOK: the callee converts to uint16 only under a range test, records
// the failure in a field, and Prepare turns that record into an error.
func narrowHelperOK(p *Program, hc *ssa.Call) (bool, string) {
	h := hc.Call.StaticCallee()
	if h == nil || fnPkg(h) == nil || !IsLibPath(fnPkg(h).Pkg.Path()) {
		return false, "the 16-bit value comes from a call that cannot be analysed"
	}
	for _, b := range h.Blocks {
		ret, ok := terminator(b).(*ssa.Return)
		if !ok || len(ret.Results) != 1 {
			continue
		}
		switch v := ret.Results[0].(type) {
		case *ssa.Const:
		case *ssa.Convert:
			if !guardedByUpperBound(v.X, ret) {
				return false, "helper " + h.Name() + " truncates to 16 bits on a path that is not guarded by an upper-bound test"
			}
		default:
			return false, "helper " + h.Name() + " returns a value of unrecognised shape"
		}
	}
	// the failure record
	var rec string
	for _, b := range h.Blocks {
		for _, ins := range b.Instrs {
			if st, ok := ins.(*ssa.Store); ok {
				if k := fieldKey(st.Addr); k != "" {
					rec = k
				}
			}
		}
	}
	if rec == "" {
		return false, "helper " + h.Name() + " range-checks the value but records the failure nowhere: the truncated program is still accepted"
	}
	return recordReportedByPrepare(p, rec, h.Name())
}

// recordReportedByPrepare: Prepare turns the field that records a range
// failure into an error.
func recordReportedByPrepare(p *Program, rec, hname string) (bool, string) {
	h := struct{ name string }{hname}
	a, _ := p.Anchors()
	if a.prepare == nil {
		return false, "cannot find Prepare"
	}
	stage, _, _ := prepareStage(p, a)
	var blocks []*ssa.BasicBlock
	blocks = append(blocks, a.prepare.Blocks...)
	if stage != a.prepare {
		// (the stage's error is Prepare's: R-ERRPROP sees to that)
		blocks = append(blocks, stage.Blocks...)
	}
	for _, b := range blocks {
		for _, ins := range b.Instrs {
			ld, ok := ins.(*ssa.UnOp)
			if !ok || ld.Op != token.MUL || fieldKey(ld.X) != rec {
				continue
			}
			for _, ref := range liveRefs(ld) {
				iff, ok := ref.(*ssa.If)
				if !ok {
					continue
				}
				// once the record is seen set, every way on ends in a failing return
				if iff.Cond == ssa.Value(ld) && allReturnsFail(iff.Block().Succs[0]) {
					return true, "range-checked in " + h.name + "; failure recorded in " + rec + " and reported by Prepare"
				}
			}
		}
	}
	return false, "the range failure recorded in " + rec + " is never turned into an error by Prepare"
}

// narrowReportingHelperOK: the callee returns (uint16, bool): it converts only
// under a range test and then says true, says false otherwise; and wherever
// the call is made the "false" is recorded in a field that Prepare reports —
// directly, or after being handed up as a result.
func narrowReportingHelperOK(p *Program, hc *ssa.Call) (bool, string) {
	h := hc.Call.StaticCallee()
	if h == nil || fnPkg(h) == nil || !IsLibPath(fnPkg(h).Pkg.Path()) {
		return false, "the 16-bit value comes from a call that cannot be analysed"
	}
	rs := sigResults(h)
	if len(rs) != 2 || !isBoolType(rs[1]) {
		return false, "the 16-bit value comes from a call of unrecognised shape"
	}
	for _, b := range h.Blocks {
		ret, ok := terminator(b).(*ssa.Return)
		if !ok || len(ret.Results) != 2 {
			continue
		}
		okv, isK := returnOperand(ret, 1).(*ssa.Const)
		if !isK || okv.Value == nil || okv.Value.Kind() != constant.Bool {
			return false, "helper " + h.Name() + " does not say plainly whether the value fitted"
		}
		switch v := returnOperand(ret, 0).(type) {
		case *ssa.Const:
			if constant.BoolVal(okv.Value) {
				// a constant reported as fitting: fine
			}
		case *ssa.Convert:
			if !constant.BoolVal(okv.Value) {
				continue
			}
			if !guardedByUpperBound(v.X, ret) {
				return false, "helper " + h.Name() + " truncates to 16 bits on a path that is not guarded by an upper-bound test"
			}
		default:
			return false, "helper " + h.Name() + " returns a value of unrecognised shape"
		}
	}
	// where does the "no" go?
	var fits ssa.Value
	if hc.Referrers() != nil {
		for _, ref := range *hc.Referrers() {
			if ex, ok := ref.(*ssa.Extract); ok && ex.Index == 1 {
				fits = ex
			}
		}
	}
	if fits == nil {
		return false, "what helper " + h.Name() + " says about the range is not looked at: a program that is too large is accepted with a truncated operand"
	}
	var recordOf func(v ssa.Value, depth int) string
	recordOf = func(v ssa.Value, depth int) string {
		if depth > 3 || v.Referrers() == nil {
			return ""
		}
		for _, ref := range *v.Referrers() {
			switch x := ref.(type) {
			case *ssa.UnOp:
				if x.Op == token.NOT {
					if rec := recordOf(x, depth); rec != "" {
						return rec
					}
				}
			case *ssa.Phi:
				// merged with "true" (nothing to check on the other paths)
				okPhi := true
				for _, e := range x.Edges {
					if e == v {
						continue
					}
					if k, ok := e.(*ssa.Const); !ok || k.Value == nil || k.Value.Kind() != constant.Bool || !constant.BoolVal(k.Value) {
						okPhi = false
					}
				}
				if okPhi {
					if rec := recordOf(x, depth); rec != "" {
						return rec
					}
				}
			case *ssa.If:
				// the branch taken when the value did not fit stores true into a field
				neg := false
				c := x.Cond
				if u, ok := c.(*ssa.UnOp); ok && u.Op == token.NOT {
					neg, c = true, u.X
				}
				_ = c
				bad := x.Block().Succs[1]
				if neg {
					bad = x.Block().Succs[0]
				}
				if _, isNot := v.(*ssa.UnOp); isNot {
					// v is already the negation: its true edge is the failure
					bad = x.Block().Succs[0]
				}
				for _, ins := range bad.Instrs {
					if st, ok := ins.(*ssa.Store); ok {
						if k, ok := st.Val.(*ssa.Const); ok && k.Value != nil && k.Value.Kind() == constant.Bool && constant.BoolVal(k.Value) {
							if fk := fieldKey(st.Addr); fk != "" {
								return fk
							}
						}
					}
				}
			case *ssa.Return:
				// handed up: every caller must record it
				g := x.Parent()
				idx := -1
				for i, rv := range x.Results {
					if rv == v {
						idx = i
					}
				}
				sites := staticCallSites(p, g)
				if idx < 0 || len(sites) == 0 {
					continue
				}
				rec := ""
				for _, s := range sites {
					sv, ok := s.(ssa.Value)
					if !ok || sv.Referrers() == nil {
						return ""
					}
					got := ""
					for _, r2 := range *sv.Referrers() {
						if ex, ok := r2.(*ssa.Extract); ok && ex.Index == idx {
							got = recordOf(ex, depth+1)
						}
					}
					if got == "" || rec != "" && got != rec {
						return ""
					}
					rec = got
				}
				if rec != "" {
					return rec
				}
			}
		}
		return ""
	}
	rec := recordOf(fits, 0)
	if rec == "" {
		return false, "helper " + h.Name() + " range-checks the value, but on some path from its call the refusal is recorded nowhere: the truncated program is still accepted"
	}
	return recordReportedByPrepare(p, rec, h.Name())
}

// allReturnsFail: every return reachable from b is a failing one (and one is reachable).
func allReturnsFail(b *ssa.BasicBlock) bool {
	seen := map[*ssa.BasicBlock]bool{}
	n, ok := 0, true
	var w func(x *ssa.BasicBlock)
	w = func(x *ssa.BasicBlock) {
		if seen[x] {
			return
		}
		seen[x] = true
		if ret, isRet := terminator(x).(*ssa.Return); isRet {
			n++
			if isSuccessReturn(ret) {
				ok = false
			}
		}
		for _, s := range x.Succs {
			w(s)
		}
	}
	w(b)
	return ok && n > 0
}

func isMapLookup(v ssa.Value) bool {
	switch x := v.(type) {
	case *ssa.Lookup:
		return true
	case *ssa.Extract:
		_, ok := x.Tuple.(*ssa.Lookup)
		return ok
	}
	return false
}

func describeVal(p *Program, fn *ssa.Function, call *ssa.Call) string {
	root := fn
	for root.Parent() != nil {
		root = root.Parent()
	}
	if ce := callExprAt(root.Syntax(), call.Pos()); ce != nil && len(ce.Args) >= 1 {
		return types.ExprString(ce.Args[len(ce.Args)-1])
	}
	return "value"
}

// guardedByUpperBound: some block dominating `at` is entered only through the
// true edge of `v <= c` / `v < c` (or false edge of the negation).
func guardedByUpperBound(v ssa.Value, at ssa.Instruction) bool {
	for _, ref := range liveRefs(v) {
		// the range test kept in a predicate of its own: true only for values
		// below a constant
		if cl, ok := ref.(*ssa.Call); ok {
			if g := cl.Call.StaticCallee(); g != nil && len(g.Blocks) > 0 && fnPkg(g) != nil && IsLibPath(fnPkg(g).Pkg.Path()) && g.Signature.Results().Len() == 1 && isBoolType(g.Signature.Results().At(0).Type()) {
				k := -1
				for i, arg := range cl.Call.Args {
					if arg == v {
						k = i
					}
				}
				good := k >= 0 && k < len(g.Params)
				if good {
					for _, b := range g.Blocks {
						if ret, ok := terminator(b).(*ssa.Return); ok && !trueImpliesUpperBound(returnOperand(ret, 0), g.Params[k], 0) {
							good = false
						}
					}
				}
				if good {
					for _, r2 := range liveRefs(cl) {
						if iff, ok := r2.(*ssa.If); ok {
							succ := iff.Block().Succs[0]
							if len(succ.Preds) == 1 && (succ == at.Block() || succ.Dominates(at.Block())) {
								return true
							}
						}
					}
				}
			}
			continue
		}
		bo, ok := ref.(*ssa.BinOp)
		if !ok {
			continue
		}
		var upperTrue bool // condition true implies v bounded above
		switch {
		case bo.X == v && (bo.Op == token.LEQ || bo.Op == token.LSS):
			upperTrue = true
		case bo.Y == v && (bo.Op == token.GEQ || bo.Op == token.GTR):
			upperTrue = true
		case bo.X == v && (bo.Op == token.GTR || bo.Op == token.GEQ):
			upperTrue = false
		case bo.Y == v && (bo.Op == token.LSS || bo.Op == token.LEQ):
			upperTrue = false
		default:
			continue
		}
		if _, isC := bo.Y.(*ssa.Const); !isC {
			if _, isC2 := bo.X.(*ssa.Const); !isC2 {
				continue
			}
		}
		for _, r2 := range liveRefs(bo) {
			iff, ok := r2.(*ssa.If)
			if !ok {
				continue
			}
			succ := iff.Block().Succs[0]
			if !upperTrue {
				succ = iff.Block().Succs[1]
			}
			if len(succ.Preds) == 1 && succ.Dominates(at.Block()) {
				return true
			}
		}
	}
	return false
}

// ---------------------------------------------------------------------------
// R-PREPAREFRESH

func rulePrepareFresh(p *Program, r *Reporter) {
	a := needAnchors(p, r)
	if a == nil {
		return
	}
	// every successful Prepare translates the script and builds a machine from
	// the result: there is no path to a nil error that does not pass the
	// compiler and the machine's constructor (a Prepare that answers from memory
	// — "same script text as last time" — ignores what else decides the
	// program: the flags, the functions registered since)
	{
		must := map[string]*ssa.Function{"the compiler": a.compile, "the machine's constructor": a.vmNew}
		var names []string
		for n := range must {
			names = append(names, n)
		}
		sort.Strings(names)
		for _, what := range names {
			target := must[what]
			stop := map[*ssa.BasicBlock]bool{}
			for _, c := range callsTo(a.prepare, target) {
				stop[c.Block()] = true
			}
			// the call may sit in a part of Prepare that has a function of its own
			for _, b := range a.prepare.Blocks {
				for _, ins := range b.Instrs {
					if cc := callOf(ins); cc != nil && cc.StaticCallee() != nil && cc.StaticCallee() != target && fnPkg(cc.StaticCallee()) != nil && fnPkg(cc.StaticCallee()).Pkg.Path() == Mod {
						if len(callsTo(cc.StaticCallee(), target)) > 0 {
							stop[b] = true
						}
					}
				}
			}
			key := "a successful Prepare has passed " + what
			if len(stop) == 0 {
				r.Fail(key, p.Pos(a.prepare.Pos()), "Prepare never calls "+what)
				continue
			}
			bad := token.NoPos
			seen := map[*ssa.BasicBlock]bool{}
			var walk func(b *ssa.BasicBlock)
			walk = func(b *ssa.BasicBlock) {
				if seen[b] || stop[b] || bad.IsValid() {
					return
				}
				seen[b] = true
				if ret, ok := terminator(b).(*ssa.Return); ok {
					if isSuccessReturn(ret) {
						bad = ret.Pos()
					}
					return
				}
				for _, sc := range b.Succs {
					walk(sc)
				}
			}
			walk(a.prepare.Blocks[0])
			if bad.IsValid() {
				r.Fail(key, p.Pos(bad), "Prepare can return without an error here without having gone through "+what+": the program that runs afterwards is one made by an earlier Prepare — with the flags of that call (Prepare() after Prepare(NoOptimize) stays unoptimized), and with the script as it was then")
			} else {
				r.OkNT(key, p.Pos(a.prepare.Pos()), "every path to a nil error passes the call")
			}
		}
	}
	// compile outputs: Eval fields that functions reachable from compile grow
	// (store of an append result, or map insert through the field).
	reach := p.Reachable(a.compile)
	outputs := map[string]token.Pos{}
	for fn := range reach {
		if fnPkg(fn) == nil || fnPkg(fn).Pkg.Path() != Mod {
			continue
		}
		for _, b := range fn.Blocks {
			for _, ins := range b.Instrs {
				switch x := ins.(type) {
				case *ssa.Store:
					if _, isApp := isBuiltinCall(x.Val, "append"); isApp {
						if n, f, ok := fieldOf(x.Addr); ok && n != nil && n.Obj().Name() == "Eval" {
							outputs[f] = x.Pos()
						}
					}
					// a counter or a flag the compiler keeps in the evaluator
					if n, f, ok := fieldOf(x.Addr); ok && n != nil && n.Obj().Name() == "Eval" {
						if b, isBasic := x.Val.Type().Underlying().(*types.Basic); isBasic && b.Info()&(types.IsNumeric|types.IsBoolean|types.IsString) != 0 {
							if _, seen := outputs[f]; !seen {
								outputs[f] = x.Pos()
							}
						}
					}
				case *ssa.MapUpdate:
					if u, ok := x.Map.(*ssa.UnOp); ok && u.Op == token.MUL {
						if n, f, ok := fieldOf(u.X); ok && n != nil && n.Obj().Name() == "Eval" {
							outputs[f] = x.Pos()
						}
					}
				}
			}
		}
	}
	// the compile call: in Prepare, or in a stage of Prepare that has a
	// function of its own (called from Prepare only)
	stage, stageCall, compileCall := prepareStage(p, a)
	if compileCall == nil {
		r.Undecided("compile call in Prepare", p.Pos(a.prepare.Pos()), "neither Prepare nor a function only Prepare calls calls the compiler")
		return
	}
	var names []string
	for f := range outputs {
		names = append(names, f)
	}
	sort.Strings(names)
	for _, f := range names {
		key := "Prepare resets Eval." + f + " before compiling"
		reset := false
		fld0 := f
		isReset := func(ins ssa.Instruction) bool {
			st, ok := ins.(*ssa.Store)
			if !ok {
				return false
			}
			n, fld, ok := fieldOf(st.Addr)
			return ok && n != nil && n.Obj().Name() == "Eval" && fld == fld0 && isFreshEmpty(st.Val)
		}
		for _, b := range stage.Blocks {
			for _, ins := range b.Instrs {
				// the store itself, or a call of a function that makes it on
				// every one of its paths
				if performs(ins, isReset, 2) && dominatesInstr(ins, compileCall) {
					reset = true
				}
			}
		}
		if stageCall != nil {
			for _, b := range a.prepare.Blocks {
				for _, ins := range b.Instrs {
					if performs(ins, isReset, 2) && ins != ssa.Instruction(stageCall) && dominatesInstr(ins, stageCall) {
						reset = true
					}
				}
			}
		}
		r.Check(reset, key, p.Pos(compileCall.Pos()), "a store of an empty value dominates the compile call", "the compiler grows or updates Eval."+f+" (at "+p.Pos(outputs[f])+") and Prepare does not put it back to empty / zero first: a second Prepare on the same evaluator carries on from what the first left there, so the same script compiles to a different program")
	}
	prepareCoherent(p, r, a, outputs)
}

// prepareCoherent: once Prepare has emptied a compile output, the previous
// machine no longer matches the evaluator's tables; every failing return that
// can follow such a reset must have the machine field cleared, otherwise a
// failed Prepare leaves the old program runnable and Dump pairs its bytecode
// with the new (empty) constants.
func prepareCoherent(p *Program, r *Reporter, a *anchors, outputs map[string]token.Pos) {
	key := "a failed Prepare leaves no machine of the previous program behind"
	var resets, clears []ssa.Instruction
	machineField := ""
	isOutputReset := func(ins ssa.Instruction) bool {
		st, ok := ins.(*ssa.Store)
		if !ok {
			return false
		}
		n, fld, ok := fieldOf(st.Addr)
		if !ok || n == nil || n.Obj().Name() != "Eval" {
			return false
		}
		_, isOut := outputs[fld]
		return isOut && isFreshEmpty(st.Val)
	}
	storesMachine := func(ins ssa.Instruction) bool {
		st, ok := ins.(*ssa.Store)
		if !ok {
			return false
		}
		n, fld, ok := fieldOf(st.Addr)
		if !ok || n == nil || n.Obj().Name() != "Eval" {
			return false
		}
		if pt, ok := st.Val.Type().(*types.Pointer); ok && isNamed(pt.Elem(), "vm", "VM") {
			machineField = fld
			return true
		}
		return false
	}
	clearsMachine := func(ins ssa.Instruction) bool {
		st, ok := ins.(*ssa.Store)
		return ok && storesMachine(ins) && isNilConst(st.Val)
	}
	mayPerform(a.prepare, storesMachine, 2)
	for _, b := range a.prepare.Blocks {
		for _, ins := range b.Instrs {
			// the stores themselves, or calls of functions that make them on
			// every one of their paths
			if performs(ins, isOutputReset, 2) {
				resets = append(resets, ins)
			}
			if performs(ins, clearsMachine, 2) {
				clears = append(clears, ins)
			}
		}
	}
	if machineField == "" {
		r.Undecided(key, p.Pos(a.prepare.Pos()), "Prepare does not store a machine into the evaluator")
		return
	}
	if len(resets) == 0 {
		r.OkNT(key, p.Pos(a.prepare.Pos()), "Prepare never empties the evaluator's tables before it has succeeded")
		return
	}
	bad := ""
	nret := 0
	for _, b := range a.prepare.Blocks {
		ret, ok := b.Instrs[len(b.Instrs)-1].(*ssa.Return)
		if !ok || isSuccessReturn(ret) {
			continue
		}
		after := false
		for _, rs := range resets {
			if rs.Block() == b || blockReaches(rs.Block(), b, nil) {
				after = true
			}
		}
		if !after {
			continue
		}
		nret++
		cleared := false
		for _, c := range clears {
			if dominatesInstr(c, ret) {
				cleared = true
			}
		}
		if !cleared && bad == "" {
			bad = p.Pos(ret.Pos())
		}
	}
	if bad != "" {
		r.Fail(key, bad, "this error return follows the reset of the compile outputs but Eval."+machineField+" still holds the machine of the previous program: after the failed Prepare, Run executes the old script and Dump indexes the emptied constant table with the old bytecode (index out of range)")
		return
	}
	r.OkNT(key, p.Pos(a.prepare.Pos()), fmt.Sprintf("Eval.%s is set to nil before each of the %d error returns that follow the reset", machineField, nret))
}

func isFreshEmpty(v ssa.Value) bool {
	switch x := v.(type) {
	case *ssa.Const:
		if x.IsNil() {
			return true
		}
		// the zero of a counter, a flag or a text
		if x.Value != nil {
			switch x.Value.Kind() {
			case constant.Bool:
				return !constant.BoolVal(x.Value)
			case constant.Int, constant.Float:
				return constant.Sign(x.Value) == 0
			case constant.String:
				return constant.StringVal(x.Value) == ""
			}
		}
		return false
	case *ssa.MakeMap:
		return true
	case *ssa.MakeSlice:
		n, ok := constInt(x.Len)
		return ok && n == 0
	case *ssa.Slice:
		// []T{} literal: slice of a fresh zero-length array
		if al, ok := x.X.(*ssa.Alloc); ok {
			if at, ok := deref(al.Type()).Underlying().(*types.Array); ok {
				return at.Len() == 0
			}
		}
	case *ssa.ChangeType:
		return isFreshEmpty(x.X)
	case *ssa.Convert:
		return isFreshEmpty(x.X)
	}
	return false
}

// ---------------------------------------------------------------------------
// R-NOINJECT

func ruleNoInject(p *Program, r *Reporter) {
	envSet := p.Fn("environment.(*Environment).Set")
	if envSet == nil {
		r.Undecided("anchor (*Environment).Set", "-", "cannot find the variable store's Set method")
		return
	}
	for _, fn := range p.LibFns {
		for _, b := range fn.Blocks {
			for _, ins := range b.Instrs {
				cc := callOf(ins)
				if cc == nil || cc.StaticCallee() != envSet {
					continue
				}
				key := siteKey(p, fn, ins.Pos(), "writes a script variable")
				path := fnPkg(fn).Pkg.Path()
				name := p.FnName(fn)
				switch {
				case path == Mod+"/vm" && fn == mustAnchorRun(p):
					r.Ok(key, p.Pos(ins.Pos()), "VM opcode handler")
				case path == Mod+"/vm" && isInterpreterOnly(p, fn):
					r.Ok(key, p.Pos(ins.Pos()), "part of the VM's opcode handlers (only the interpreter calls it)")
				case path == Mod+"/environment":
					r.Ok(key, p.Pos(ins.Pos()), "inside the variable store")
				case name == "evalfilter.(*Eval).SetVariable":
					r.Ok(key, p.Pos(ins.Pos()), "the host's SetVariable")
				default:
					what := ""
					if c, ok := cc.Args[1].(*ssa.Const); ok {
						what = " (" + c.Value.ExactString() + ")"
					}
					if ok, why := temporaryVariable(p, fn, ins, cc); ok {
						r.OkNT(key, p.Pos(ins.Pos()), why)
						continue
					}
					r.Fail(key, p.Pos(ins.Pos()), "library code other than an opcode handler or SetVariable stores a variable"+what+" in the namespace scripts read and does not remove it again: the script can observe it, so behaviour depends on something other than the script, the object and the host's variables")
				}
			}
		}
	}
}

// temporaryVariable: the variable stored at `set` (constant name) is removed
// again on every path to a return of fn, except on paths where a lookup made
// before the store showed that the host had set it already.
func temporaryVariable(p *Program, fn *ssa.Function, set ssa.Instruction, cc *ssa.CallCommon) (bool, string) {
	name, ok := cc.Args[1].(*ssa.Const)
	if !ok || name.Value == nil {
		return false, ""
	}
	var unset, get *ssa.Function
	for _, f := range p.LibFns {
		if !recvNamed(f, "environment", "Environment") || f.Parent() != nil {
			continue
		}
		ps, rs := sigParams(f), sigResults(f)
		if len(ps) == 1 && isStringType(ps[0]) && len(rs) == 0 {
			// removes from the global map
			for _, b := range f.Blocks {
				for _, ins := range b.Instrs {
					if c, ok := ins.(*ssa.Call); ok {
						if bi, ok := c.Call.Value.(*ssa.Builtin); ok && bi.Name() == "delete" {
							unset = f
						}
					}
				}
			}
		}
		if f.Name() == "Get" {
			get = f
		}
	}
	if unset == nil {
		return false, ""
	}
	sameName := func(v ssa.Value) bool {
		c, ok := v.(*ssa.Const)
		return ok && c.Value != nil && c.Value.ExactString() == name.Value.ExactString()
	}
	// "the host had set it": ok-result of Get(name) evaluated before the store,
	// and the value the host had stored
	hostHad := map[ssa.Value]bool{}
	hostValue := map[ssa.Value]bool{}
	for _, c := range callsTo(fn, get) {
		call, isCall := c.(*ssa.Call)
		if !isCall || !sameName(call.Call.Args[1]) || !dominatesInstr(call, set) {
			continue
		}
		for _, ref := range liveRefs(call) {
			if ex, ok := ref.(*ssa.Extract); ok && ex.Index == 1 {
				hostHad[ex] = true
			}
			if ex, ok := ref.(*ssa.Extract); ok && ex.Index == 0 {
				hostValue[ex] = true
			}
		}
	}
	// a store of the value read before puts the host's variable back
	restores := func(x *ssa.Call) bool {
		if x.Call.StaticCallee() != cc.StaticCallee() || len(x.Call.Args) < 3 || !sameName(x.Call.Args[1]) {
			return false
		}
		return hostValue[x.Call.Args[2]]
	}
	// the store under test is itself the restoration
	if c, ok := set.(*ssa.Call); ok && restores(c) {
		return true, "puts back the value the host had stored under the name (read before the temporary value was stored)"
	}
	// conditions known to hold at the store
	known := map[ssa.Value]bool{}
	for d := set.Block(); d.Idom() != nil; d = d.Idom() {
		if iff, ok := terminator(d.Idom()).(*ssa.If); ok && d.Idom().Succs[0] == d && len(d.Preds) == 1 {
			known[iff.Cond] = true
		}
	}
	leak := false
	seen := map[*ssa.BasicBlock]bool{}
	var walk func(b *ssa.BasicBlock, i int)
	walk = func(b *ssa.BasicBlock, i int) {
		for ; i < len(b.Instrs); i++ {
			switch x := b.Instrs[i].(type) {
			case *ssa.Call:
				if x.Call.StaticCallee() == unset && sameName(x.Call.Args[1]) {
					return
				}
				if restores(x) {
					return
				}
			case *ssa.Return:
				leak = true
				return
			case *ssa.If:
				cond, neg := x.Cond, false
				if u, ok := cond.(*ssa.UnOp); ok && u.Op == token.NOT {
					cond, neg = u.X, true
				}
				next := b.Succs
				if known[cond] {
					if neg {
						next = b.Succs[1:]
					} else {
						next = b.Succs[:1]
					}
				}
				// (that the host had a variable of the name is no excuse: its
				// value has been overwritten, and must be put back)
				_ = hostHad
				for _, s := range next {
					if !seen[s] {
						seen[s] = true
						walk(s, 0)
					}
				}
				return
			}
		}
		for _, s := range b.Succs {
			if !seen[s] {
				seen[s] = true
				walk(s, 0)
			}
		}
	}
	walk(set.Block(), instrIndex(set)+1)
	if leak {
		return false, ""
	}
	return true, "temporary: on every path to a return the variable is removed again (" + unset.Name() + ") or the value the host had stored under the name is put back"
}

func mustAnchorRun(p *Program) *ssa.Function {
	a, _ := p.Anchors()
	return a.vmRun
}

// firstActions: what a part of the compiler does first on the paths from its
// entry to a successful return — "emit Op…", "<compile>" (a call of the
// compiler or of another part) or "<exit>" (nothing) — and, when every such
// path emits an instruction itself, a description of the first emit.
func firstActions(p *Program, a *anchors, g *ssa.Function) (map[string]bool, string) {
	out := map[string]bool{}
	emits := map[ssa.Instruction]emitSite{}
	for _, e := range emitSites(p, a, g) {
		emits[e.call] = e
	}
	firstEmits := map[string]bool{}
	type st struct {
		b  *ssa.BasicBlock
		fa bool
	}
	seen := map[st]bool{}
	var walk func(b *ssa.BasicBlock, fa bool)
	walk = func(b *ssa.BasicBlock, fa bool) {
		for _, ins := range b.Instrs {
			if e, ok := emits[ins]; ok {
				if !fa {
					out["emit "+e.op] = true
				}
				firstEmits["emit "+e.op] = true
				return
			}
			if cc := callOf(ins); cc != nil && cc.StaticCallee() != nil && !fa {
				if cc.StaticCallee() == a.compile {
					out["<compile>"] = true
					fa = true
				}
			}
			if ret, ok := ins.(*ssa.Return); ok {
				if isSuccessReturn(ret) {
					if !fa {
						out["<exit>"] = true
					}
					firstEmits["<none>"] = true
				}
				return
			}
		}
		for _, sc := range b.Succs {
			if !seen[st{sc, fa}] {
				seen[st{sc, fa}] = true
				walk(sc, fa)
			}
		}
	}
	if len(g.Blocks) > 0 {
		walk(g.Blocks[0], false)
	}
	must := ""
	if !firstEmits["<none>"] && len(firstEmits) > 0 {
		must = "emit <several>"
		if len(firstEmits) == 1 {
			for k := range firstEmits {
				must = k
			}
		}
	}
	return out, must
}

// trueImpliesUpperBound: whenever the boolean is true, prm has passed a
// comparison that bounds it above by a constant (the value is that
// comparison, false, or a merge of such — the shape of `a && prm <= K`).
func trueImpliesUpperBound(v ssa.Value, prm ssa.Value, depth int) bool {
	if depth > 6 {
		return false
	}
	switch x := v.(type) {
	case *ssa.Const:
		return x.Value != nil && x.Value.Kind() == constant.Bool && !constant.BoolVal(x.Value)
	case *ssa.BinOp:
		_, cy := x.Y.(*ssa.Const)
		_, cx := x.X.(*ssa.Const)
		if x.X == prm && cy && (x.Op == token.LEQ || x.Op == token.LSS) {
			return true
		}
		if x.Y == prm && cx && (x.Op == token.GEQ || x.Op == token.GTR) {
			return true
		}
	case *ssa.Phi:
		for i, e := range x.Edges {
			if trueImpliesUpperBound(e, prm, depth+1) {
				continue
			}
			// an edge that is only taken when such a comparison has succeeded
			pd := x.Block().Preds[i]
			okEdge := false
			for d := pd; d != nil && d.Idom() != nil; d = d.Idom() {
				if iff, ok := terminator(d.Idom()).(*ssa.If); ok && d.Idom().Succs[0] == d && len(d.Preds) == 1 {
					if trueImpliesUpperBound(iff.Cond, prm, depth+1) {
						if _, isC := iff.Cond.(*ssa.Const); !isC {
							okEdge = true
						}
					}
				}
			}
			if !okEdge {
				return false
			}
		}
		return len(x.Edges) > 0
	}
	return false
}

// trueImpliesLowerBound: whenever the boolean is true, prm has passed a
// comparison that bounds it below by a constant.
func trueImpliesLowerBound(v ssa.Value, prm ssa.Value, depth int) bool {
	if depth > 6 {
		return false
	}
	switch x := v.(type) {
	case *ssa.Const:
		return x.Value != nil && x.Value.Kind() == constant.Bool && !constant.BoolVal(x.Value)
	case *ssa.BinOp:
		_, cy := x.Y.(*ssa.Const)
		_, cx := x.X.(*ssa.Const)
		if x.X == prm && cy && (x.Op == token.GEQ || x.Op == token.GTR) {
			return true
		}
		if x.Y == prm && cx && (x.Op == token.LEQ || x.Op == token.LSS) {
			return true
		}
	case *ssa.Phi:
		for i, e := range x.Edges {
			if trueImpliesLowerBound(e, prm, depth+1) {
				continue
			}
			pd := x.Block().Preds[i]
			okEdge := false
			for d := pd; d != nil && d.Idom() != nil; d = d.Idom() {
				if iff, ok := terminator(d.Idom()).(*ssa.If); ok && d.Idom().Succs[0] == d && len(d.Preds) == 1 {
					if _, isC := iff.Cond.(*ssa.Const); !isC && trueImpliesLowerBound(iff.Cond, prm, depth+1) {
						okEdge = true
					}
				}
			}
			if !okEdge {
				return false
			}
		}
		return len(x.Edges) > 0
	}
	return false
}

// isInterpreterOnly: fn is a part of the interpreter's handlers (see interpreterOnly).
func isInterpreterOnly(p *Program, fn *ssa.Function) bool {
	a, missing := p.Anchors()
	if a == nil || len(missing) > 0 {
		return false
	}
	return interpreterOnly(p, a)[fn]
}

// prepareStage: the function that calls the compiler on Prepare's behalf —
// Prepare itself, or a function whose only static call is in Prepare (one
// level: `compileProgram(program)`); the call of that function in Prepare (nil
// when it is Prepare) and the compile call.
func prepareStage(p *Program, a *anchors) (*ssa.Function, *ssa.Call, *ssa.Call) {
	find := func(f *ssa.Function) *ssa.Call {
		var out *ssa.Call
		for _, b := range f.Blocks {
			for _, ins := range b.Instrs {
				if c, ok := staticCalleeIs(ins, a.compile); ok {
					out = c
				}
			}
		}
		return out
	}
	if c := find(a.prepare); c != nil {
		return a.prepare, nil, c
	}
	for _, b := range a.prepare.Blocks {
		for _, ins := range b.Instrs {
			sc, ok := ins.(*ssa.Call)
			if !ok || sc.Call.StaticCallee() == nil || fnPkg(sc.Call.StaticCallee()) == nil || fnPkg(sc.Call.StaticCallee()).Pkg.Path() != Mod {
				continue
			}
			h := sc.Call.StaticCallee()
			if h == a.compile || len(staticCallSites(p, h)) != 1 || functionUsedAsValue(p, h) {
				continue
			}
			if c := find(h); c != nil {
				return h, sc, c
			}
		}
	}
	return a.prepare, nil, nil
}
