package main

// Front-end rules: the embedding API shares one environment (R-ENVSHARE), void
// results are not pushed (R-VOIDPUSH), NoOptimize only switches the optimizer
// (R-FLAGONLY), the command-line driver is a faithful front end (R-DRIVER);
// and the optimizer's folds agree with the VM (R-FOLDAGREE).

import (
	"fmt"
	"go/ast"
	"go/constant"
	"go/token"
	"go/types"
	"os"
	"sort"
	"strings"

	"golang.org/x/tools/go/ssa"
)

func init() {
	register(&Rule{ID: "R-ENVSHARE", Floor: 5, Run: ruleEnvShare,
		Text: "The API and the machine use one variable/function store: Eval.environment is assigned once (by the constructor), is what Prepare hands to vm.New, VM.environment is assigned only at construction, and SetVariable / GetVariable / AddFunction pass their own arguments straight to that store (GetVariable yields null when unset)."})
	register(&Rule{ID: "R-VOIDPUSH", Floor: 2, Run: ruleVoidPush,
		Text: "The result of a called function — host, built-in or user-defined — is pushed as the call's value exactly when its type is not VOID."})
	register(&Rule{ID: "R-FLAGONLY", Floor: 1, Run: ruleFlagOnly,
		Text: "The NoOptimize flag decides one thing only: whether the optimizer switch is set; nothing else in Prepare depends on it.  The switch starts on and is only ever turned off while the flags are scanned (merged from constants, or from itself and-ed with a test), so one NoOptimize decides wherever it stands among the arguments."})
	register(&Rule{ID: "R-DRIVER", Floor: 6, Run: ruleDriver,
		Text: "The command-line driver is a faithful front end: SetContext is never called after Prepare on an evaluator, the -no-optimizer flag reaches Prepare as NoOptimize, the decoded JSON document is what Execute runs against, the report prints Type(), Inspect() and True() of Execute's result, and main installs a deferred recover before dispatching."})
	register(&Rule{ID: "R-FOLDAGREE", Floor: 6, Run: ruleFoldAgree,
		Text: "A constant fold computes what the VM would for two integers: same Go operator with the later push as right operand, result range-checked before it is written into a push, division by a constant zero not folded, comparison folds produce the boolean opcodes, and a fold never changes the type of the result."})
}

// ---------------------------------------------------------------------------
// R-ENVSHARE

func ruleEnvShare(p *Program, r *Reporter) {
	a := needAnchors(p, r)
	if a == nil {
		return
	}
	writers := map[string][]string{}
	for _, fn := range p.LibFns {
		for _, b := range fn.Blocks {
			for _, ins := range b.Instrs {
				if st, ok := ins.(*ssa.Store); ok {
					k := fieldKey(st.Addr)
					if k == "evalfilter.Eval.environment" || k == "vm.VM.environment" {
						writers[k] = append(writers[k], p.FnName(fn))
					}
				}
			}
		}
	}
	r.Check(len(writers["evalfilter.Eval.environment"]) == 1 && writers["evalfilter.Eval.environment"][0] == "evalfilter.New", "Eval.environment is assigned once, by the constructor", p.Pos(a.evalNew.Pos()), "", fmt.Sprintf("Eval.environment is written by %v: after such a write the host's SetVariable/AddFunction and the machine no longer share one store", writers["evalfilter.Eval.environment"]))
	r.Check(len(writers["vm.VM.environment"]) == 1 && writers["vm.VM.environment"][0] == "vm.New", "VM.environment is assigned only at construction", p.Pos(a.vmNew.Pos()), "", fmt.Sprintf("VM.environment is written by %v", writers["vm.VM.environment"]))
	// vm.New stores its env parameter; Prepare passes a load of Eval.environment
	storesParam := false
	for _, b := range a.vmNew.Blocks {
		for _, ins := range b.Instrs {
			if st, ok := ins.(*ssa.Store); ok && fieldKey(st.Addr) == "vm.VM.environment" {
				for _, prm := range a.vmNew.Params {
					if st.Val == ssa.Value(prm) {
						storesParam = true
					}
				}
			}
		}
	}
	// wherever the evaluator builds its machine (Prepare, or a function it
	// calls for that): every such call hands over the evaluator's environment
	passes := false
	nNew := 0
	for _, fn := range p.LibFns {
		if fnPkg(fn) == nil || fnPkg(fn).Pkg.Path() != Mod {
			continue
		}
		for _, c := range callsTo(fn, a.vmNew) {
			nNew++
			this := false
			for _, arg := range c.Common().Args {
				if u, ok := arg.(*ssa.UnOp); ok && fieldKey(u.X) == "evalfilter.Eval.environment" {
					this = true
				}
			}
			if this && nNew == 1 {
				passes = true
			}
			if !this {
				passes = false
			}
		}
	}
	r.Check(storesParam && passes, "the machine is built on the evaluator's environment", p.Pos(a.prepare.Pos()), "Prepare passes Eval.environment to vm.New, which stores it", "Prepare does not hand the evaluator's own environment to the machine (or vm.New does not keep it): variables and functions set through the API are invisible to scripts")
	// the three API methods
	type spec struct {
		api, callee string
		nargs       int
	}
	for _, sp := range []spec{{"SetVariable", "Set", 2}, {"GetVariable", "Get", 1}, {"AddFunction", "SetFunction", 2}} {
		fn := p.Fn("evalfilter.(*Eval)." + sp.api)
		key := sp.api + " forwards to the shared store"
		if fn == nil {
			r.Fail(key, "-", "API method "+sp.api+" not found")
			continue
		}
		target := methodOf(p, "environment", "Environment", sp.callee)
		cs := callsTo(fn, target)
		good := len(cs) == 1
		if good {
			args := cs[0].Common().Args
			if u, ok := args[0].(*ssa.UnOp); !ok || fieldKey(u.X) != "evalfilter.Eval.environment" {
				good = false
			}
			for i := 0; i < sp.nargs && good; i++ {
				if args[1+i] != ssa.Value(fn.Params[1+i]) {
					good = false
				}
			}
		}
		r.Check(good, key, p.Pos(fn.Pos()), "calls Environment."+sp.callee+" on Eval.environment with its own arguments, in order", sp.api+" does not pass its own arguments, in order, to Environment."+sp.callee+" of the evaluator's environment")
		if sp.api == "GetVariable" && good {
			// returns the value when found, a Null object otherwise
			okRet := true
			for _, b := range fn.Blocks {
				ret, ok := terminator(b).(*ssa.Return)
				if !ok {
					continue
				}
				fine := false
				for _, o := range outerOrigins(ret.Results[0]) {
					if e, ok := o.(*ssa.Extract); ok && e.Tuple == cs[0].(*ssa.Call) && e.Index == 0 {
						fine = true
					}
					if al, ok := o.(*ssa.Alloc); ok && objectStructName(al.Type()) == "Null" {
						fine = true
					}
				}
				if !fine {
					okRet = false
				}
			}
			r.Check(okRet, "GetVariable returns the stored value or null", p.Pos(fn.Pos()), "", "GetVariable returns something other than the stored value or a null object")
		}
	}
}

// ---------------------------------------------------------------------------
// R-VOIDPUSH

func ruleVoidPush(p *Program, r *Reporter) {
	a := needAnchors(p, r)
	if a == nil {
		return
	}
	run := a.vmRun
	voidConst, _ := func() (string, bool) {
		pk := p.ByPath[Mod+"/object"]
		c, ok := pk.Types.Scope().Lookup("VOID").(*types.Const)
		if !ok {
			return "", false
		}
		return constant.StringVal(c.Val()), true
	}()
	// call results in the OpCall handler: dynamic call through the table and
	// the interpreter re-entry
	var results []ssa.Value
	var where []token.Pos
	var whereFn []*ssa.Function
	for _, ins := range handlerInstrs(p, a, "OpCall") {
		{
			c, ok := ins.(*ssa.Call)
			if !ok {
				continue
			}
			if c.Call.StaticCallee() == nil && !c.Call.IsInvoke() {
				if _, isB := c.Call.Value.(*ssa.Builtin); !isB {
					results = append(results, c)
					where = append(where, c.Pos())
					whereFn = append(whereFn, c.Parent())
				}
			}
			if cal := c.Call.StaticCallee(); cal != nil {
				reenters := cal == run
				for _, re := range runReentries(p, run) {
					if re.fn == cal {
						reenters = true
					}
				}
				// inside a function that re-enters for the handler the result is
				// only handed back: it is judged where that function is called
				for _, re := range runReentries(p, run) {
					if re.fn == c.Parent() && c.Parent() != run {
						reenters = false
					}
				}
				if reenters {
					for _, ref := range liveRefs(c) {
						if ex, ok := ref.(*ssa.Extract); ok && ex.Index == 0 {
							results = append(results, ex)
							where = append(where, c.Pos())
							whereFn = append(whereFn, c.Parent())
						}
					}
				}
			}
		}
	}
	if len(results) < 2 {
		r.Undecided("call results in the call handler", p.Pos(run.Pos()), fmt.Sprintf("found %d call result(s) in the OpCall handler; expected the host/built-in call and the user-function call", len(results)))
		return
	}
	for i, res := range results {
		key := siteKey(p, whereFn[i], where[i], "result pushed iff not void")
		// Push(res) calls, each guarded by If(res.Type() != VOID)
		var pushes []*ssa.Call
		for _, ref := range liveRefs(res) {
			if c, ok := ref.(*ssa.Call); ok && c.Call.StaticCallee() != nil && c.Call.StaticCallee().Name() == "Push" {
				pushes = append(pushes, c)
			}
		}
		var guard *ssa.If
		neq := false
		for _, ref := range liveRefs(res) {
			tc, ok := ref.(*ssa.Call)
			if !ok || !tc.Call.IsInvoke() || tc.Call.Method.Name() != "Type" {
				continue
			}
			for _, r2 := range liveRefs(tc) {
				bo, ok := r2.(*ssa.BinOp)
				if !ok {
					continue
				}
				k, ok := bo.Y.(*ssa.Const)
				if !ok || k.Value == nil || constant.StringVal(k.Value) != voidConst {
					continue
				}
				for _, r3 := range liveRefs(bo) {
					if iff, ok := r3.(*ssa.If); ok {
						guard, neq = iff, bo.Op == token.NEQ
					}
				}
			}
		}
		switch {
		case len(pushes) != 1:
			r.Fail(key, p.Pos(where[i]), fmt.Sprintf("the call's result is pushed %d time(s); it must be pushed once, when it is not the void value", len(pushes)))
		case guard == nil:
			r.Fail(key, p.Pos(where[i]), "the call's result is pushed without testing whether it is the void value: a void result becomes the call's value")
		default:
			want := guard.Block().Succs[0]
			if !neq {
				want = guard.Block().Succs[1]
			}
			if len(want.Preds) == 1 && (want == pushes[0].Block() || want.Dominates(pushes[0].Block())) {
				r.OkNT(key, p.Pos(where[i]), "pushed on the not-void branch only")
			} else {
				r.Fail(key, p.Pos(where[i]), "the push of the call's result is not on the branch where its type differs from VOID")
			}
		}
	}
}

// ---------------------------------------------------------------------------
// R-FLAGONLY

// flagCtx collects, over Prepare and the functions it hands the flags (or the
// switch computed from them) to, what the flag-dependent branches do.
type flagCtx struct {
	names       map[string]bool
	nSet        int
	decisions   int
	good        bool
	why         string
	monotoneBad token.Pos
	sawFalse    bool
	visited     map[*ssa.Function]bool
}

func flagWalk(p *Program, fn *ssa.Function, seeds map[ssa.Value]bool, depth int, ctx *flagCtx) (resultDerived bool) {
	if depth > 3 || len(fn.Blocks) == 0 {
		return false
	}
	if ctx.visited == nil {
		ctx.visited = map[*ssa.Function]bool{}
	}
	if ctx.visited[fn] {
		return false
	}
	ctx.visited[fn] = true
	inRoot := func(g *ssa.Function) bool {
		return g != nil && fnPkg(g) != nil && fnPkg(g).Pkg.Path() == Mod && len(g.Blocks) > 0
	}
	pureScan := func(g *ssa.Function) bool {
		return g != nil && fnPkg(g) != nil && (fnPkg(g).Pkg.Path() == "bytes" || fnPkg(g).Pkg.Path() == "strings")
	}
	derived := map[ssa.Value]bool{}
	for v := range seeds {
		derived[v] = true
	}
	for changed := true; changed; {
		changed = false
		for _, b := range fn.Blocks {
			for _, ins := range b.Instrs {
				v, ok := ins.(ssa.Value)
				if !ok || derived[v] {
					continue
				}
				uses := false
				for _, op := range ins.Operands(nil) {
					if *op != nil && derived[*op] {
						uses = true
					}
				}
				if !uses {
					continue
				}
				if c, isCall := ins.(*ssa.Call); isCall {
					_, isB := c.Call.Value.(*ssa.Builtin)
					g := c.Call.StaticCallee()
					switch {
					case isB, pureScan(g):
					case inRoot(g):
						// the callee sees the flags: what it does with them is
						// checked there; its result may carry them back
						sub := map[ssa.Value]bool{}
						for i, arg := range c.Call.Args {
							if derived[arg] && i < len(g.Params) {
								sub[g.Params[i]] = true
							}
						}
						if !flagWalk(p, g, sub, depth+1, ctx) {
							continue
						}
					default:
						continue
					}
				}
				derived[v] = true
				changed = true
			}
		}
	}
	// a boolean merged under branches that test derived values carries the
	// outcome of those tests (the switch itself: true unless a flag was seen)
	hasDerivedIf := false
	for _, b := range fn.Blocks {
		if iff, ok := terminator(b).(*ssa.If); ok && derived[iff.Cond] {
			hasDerivedIf = true
		}
	}
	if hasDerivedIf {
		for _, b := range fn.Blocks {
			for _, ins := range b.Instrs {
				if ph, ok := ins.(*ssa.Phi); ok && isBoolType(ph.Type()) {
					derived[ph] = true
				}
			}
		}
	}
	// calls that hand a derived value on without using the result
	for _, b := range fn.Blocks {
		for _, ins := range b.Instrs {
			cc := callOf(ins)
			if cc == nil || !inRoot(cc.StaticCallee()) {
				continue
			}
			g := cc.StaticCallee()
			sub := map[ssa.Value]bool{}
			for i, arg := range cc.Args {
				if derived[arg] && i < len(g.Params) {
					sub[g.Params[i]] = true
				}
			}
			if len(sub) > 0 {
				flagWalk(p, g, sub, depth+1, ctx)
			}
		}
	}
	// the switch only goes off: boolean merges of derived values
	for _, b := range fn.Blocks {
		for _, ins := range b.Instrs {
			ph, ok := ins.(*ssa.Phi)
			if !ok || !isBoolType(ph.Type()) || !derived[ph] {
				continue
			}
			for i, e := range ph.Edges {
				switch x := e.(type) {
				case *ssa.Phi:
				case *ssa.Const:
					if x.Value != nil && x.Value.Kind() == constant.Bool && !constant.BoolVal(x.Value) {
						ctx.sawFalse = true
					}
				default:
					pd := ph.Block().Preds[i]
					carried := false
					for d := pd; d != nil && d.Idom() != nil; d = d.Idom() {
						if iff, ok := terminator(d.Idom()).(*ssa.If); ok {
							if cp, ok := iff.Cond.(*ssa.Phi); ok && derived[cp] && isBoolType(cp.Type()) && d.Idom().Succs[0] == d && len(d.Preds) == 1 {
								carried = true
							}
						}
					}
					if carried {
						ctx.sawFalse = true
						continue
					}
					ctx.monotoneBad = ph.Pos()
				}
			}
		}
	}
	// what the flag-dependent branches do
	for _, b := range fn.Blocks {
		iff, ok := terminator(b).(*ssa.If)
		if !ok {
			continue
		}
		cond := iff.Cond
		if u, isNot := cond.(*ssa.UnOp); isNot && u.Op == token.NOT {
			cond = u.X
		}
		if !derived[cond] {
			continue
		}
		// a test of a flag's value, or of the switch computed from the flags —
		// not the bound of the loop that walks them
		switch x := cond.(type) {
		case *ssa.Phi, *ssa.Parameter, *ssa.Call:
		case *ssa.BinOp:
			if x.Op != token.EQL && x.Op != token.NEQ {
				continue
			}
		default:
			continue
		}
		ctx.decisions++
		// what each side does besides handling the switch; the same effects
		// (same callee, same sources of the arguments, same destination) on
		// both sides do not depend on the flag
		type effect struct{ sig, why string }
		var sides [][]effect
		for _, side := range b.Succs {
			if len(side.Preds) != 1 {
				continue
			}
			var effs []effect
			for _, rb := range fn.Blocks {
				if !(rb == side || side.Dominates(rb)) {
					continue
				}
				for _, ins := range rb.Instrs {
					switch x := ins.(type) {
					case *ssa.Call:
						cal := x.Call.StaticCallee()
						if cal != nil && recvNamed(cal, "environment", "Environment") && len(x.Call.Args) >= 2 {
							if c, ok := x.Call.Args[1].(*ssa.Const); ok && c.Value != nil {
								ctx.names[c.Value.ExactString()] = true
								if cal.Name() == "Set" && !restoresRead(x) {
									ctx.nSet++
								}
								continue
							}
						}
						if _, isB := x.Call.Value.(*ssa.Builtin); isB || pureScan(cal) {
							continue
						}
						effs = append(effs, effect{effectSig(ins), "a branch that depends on the flag does more than handle the optimizer switch: it calls " + calleeFullName(&x.Call)})
					case *ssa.Store:
						base := x.Addr
						if fa, ok := base.(*ssa.FieldAddr); ok {
							base = fa.X
						}
						if ia, ok := base.(*ssa.IndexAddr); ok {
							base = ia.X
						}
						if _, isAlloc := base.(*ssa.Alloc); !isAlloc {
							effs = append(effs, effect{effectSig(ins), "a branch that depends on the flag stores into evaluator state"})
						}
					case *ssa.MapUpdate, *ssa.Go, *ssa.Defer, *ssa.Send, *ssa.Panic:
						effs = append(effs, effect{"", "a branch that depends on the flag has other effects"})
					}
				}
			}
			sides = append(sides, effs)
		}
		same := len(sides) == 2 && len(sides[0]) == len(sides[1])
		if same {
			for i := range sides[0] {
				if sides[0][i].sig == "" || sides[0][i].sig != sides[1][i].sig {
					same = false
				}
			}
		}
		if !same {
			for _, effs := range sides {
				for _, e := range effs {
					ctx.good, ctx.why = false, e.why
				}
			}
		}
	}
	for _, b := range fn.Blocks {
		if ret, ok := terminator(b).(*ssa.Return); ok {
			for _, res := range ret.Results {
				if derived[res] {
					resultDerived = true
				}
			}
		}
	}
	// a scan that answers with constants — `return false` at the first flag
	// seen, `return true` after the loop: the result carries the outcome of
	// the tests, and it is the switch itself
	if hasDerivedIf && fn.Signature.Results().Len() == 1 && isBoolType(fn.Signature.Results().At(0).Type()) {
		consts, other := map[bool]bool{}, false
		for _, b := range fn.Blocks {
			if ret, ok := terminator(b).(*ssa.Return); ok {
				if c, ok := returnOperand(ret, 0).(*ssa.Const); ok && c.Value != nil && c.Value.Kind() == constant.Bool {
					consts[constant.BoolVal(c.Value)] = true
				} else if !derived[returnOperand(ret, 0)] {
					other = true
				}
			}
		}
		if !other && len(consts) == 2 {
			resultDerived = true
			ctx.sawFalse = true
		}
	}
	return resultDerived
}

// effectSig: a description of a call or store by what it calls or writes and
// where its operands come from (fields, constants, results of named calls),
// for comparing the two sides of a branch.
func effectSig(ins ssa.Instruction) string {
	var val func(v ssa.Value, d int) string
	val = func(v ssa.Value, d int) string {
		if d > 4 {
			return "?"
		}
		switch x := v.(type) {
		case *ssa.Const:
			return "const " + x.String()
		case *ssa.Parameter:
			return "param " + x.Name()
		case *ssa.UnOp:
			return "*" + val(x.X, d+1)
		case *ssa.FieldAddr:
			if k := fieldKey(x); k != "" {
				return "&" + k
			}
		case *ssa.Call:
			return effectSig(x)
		case *ssa.MakeInterface:
			return val(x.X, d+1)
		case *ssa.ChangeType:
			return val(x.X, d+1)
		case *ssa.Convert:
			return val(x.X, d+1)
		case *ssa.Global:
			return "global " + x.Name()
		}
		return "?"
	}
	switch x := ins.(type) {
	case *ssa.Call:
		if x.Call.StaticCallee() == nil {
			return ""
		}
		s := "call " + x.Call.StaticCallee().String() + "("
		for _, a := range x.Call.Args {
			d := val(a, 0)
			if strings.Contains(d, "?") {
				return ""
			}
			s += d + ","
		}
		return s + ")"
	case *ssa.Store:
		a, v := val(x.Addr, 0), val(x.Val, 0)
		if strings.Contains(a, "?") || strings.Contains(v, "?") || v == "" {
			return ""
		}
		return "store " + a + " <- " + v
	}
	return ""
}

func ruleFlagOnly(p *Program, r *Reporter) {
	a := needAnchors(p, r)
	if a == nil {
		return
	}
	fn := a.prepare
	// values derived from the flags parameter
	flags := fn.Params[len(fn.Params)-1]
	derived := map[ssa.Value]bool{flags: true}
	for changed := true; changed; {
		changed = false
		for _, b := range fn.Blocks {
			for _, ins := range b.Instrs {
				v, ok := ins.(ssa.Value)
				if !ok || derived[v] {
					continue
				}
				for _, op := range ins.Operands(nil) {
					if *op != nil && derived[*op] {
						if _, isCall := ins.(*ssa.Call); isCall {
							if _, isB := ins.(*ssa.Call).Call.Value.(*ssa.Builtin); !isB {
								continue
							}
						}
						derived[v] = true
						changed = true
					}
				}
			}
		}
	}
	// control dependence on the flag: the φ "optimize" merges constants under
	// flag-dependent branches
	flagIfs := map[*ssa.If]bool{}
	for _, b := range fn.Blocks {
		if iff, ok := terminator(b).(*ssa.If); ok && derived[iff.Cond] {
			flagIfs[iff] = true
		}
	}
	var optPhis []*ssa.Phi
	for _, b := range fn.Blocks {
		for _, ins := range b.Instrs {
			ph, ok := ins.(*ssa.Phi)
			if !ok || !isBoolType(ph.Type()) {
				continue
			}
			optPhis = append(optPhis, ph)
		}
	}
	// the Ifs deciding on the optimize φ
	var decisions []*ssa.If
	negated := map[*ssa.If]bool{}
	isOpt := func(v ssa.Value) bool {
		for _, ph := range optPhis {
			if v == ssa.Value(ph) {
				return true
			}
		}
		return false
	}
	for _, b := range fn.Blocks {
		iff, ok := terminator(b).(*ssa.If)
		if !ok {
			continue
		}
		if u, isNot := iff.Cond.(*ssa.UnOp); isNot && u.Op == token.NOT && isOpt(u.X) {
			// a branch on the negated flag: its guarded region is the other
			// successor; treat it as a decision whose region is checked below by
			// swapping the successors
			negated[iff] = true
			decisions = append(decisions, iff)
			continue
		}
		if isOpt(iff.Cond) {
			// inside the flag-scanning loops the φ is only carried; a decision is an
			// If whose successors are not loop-carried φ blocks
			decisions = append(decisions, iff)
		}
	}
	if len(optPhis) == 0 || len(decisions) == 0 {
		// the scan of the flags, or the decision, sits in a function Prepare
		// calls: follow the flags through the calls
		ctx := &flagCtx{names: map[string]bool{}, good: true}
		flagWalk(p, fn, map[ssa.Value]bool{flags: true}, 0, ctx)
		mkey := "the optimizer switch is only ever turned off by a flag"
		switch {
		case ctx.decisions == 0:
			r.Undecided("optimizer switch in Prepare", p.Pos(fn.Pos()), "cannot find the boolean merged from the flags and the branch that decides on it")
			return
		case ctx.monotoneBad.IsValid():
			r.Fail(mkey, p.Pos(ctx.monotoneBad), "the switch is assigned a computed value while the flags are scanned: a later group of flags can turn the optimizer back on, so NoOptimize is honoured only in some positions of the arguments")
		case !ctx.sawFalse:
			r.Fail(mkey, p.Pos(fn.Pos()), "nothing ever turns the switch off")
		default:
			r.OkNT(mkey, p.Pos(fn.Pos()), "merged from the constants true (initially) and false (a flag was seen) only")
		}
		if ctx.good && (len(ctx.names) != 1 || ctx.nSet != 1) {
			ctx.good, ctx.why = false, fmt.Sprintf("the flag-dependent branches of Prepare touch %d variable name(s) and set %d time(s); expected exactly the optimizer switch, set once", len(ctx.names), ctx.nSet)
		}
		r.Check(ctx.good, "NoOptimize only switches the optimizer", p.Pos(fn.Pos()), fmt.Sprintf("%d flag-dependent branch(es) in Prepare and the functions it hands the flags to, all handling only the optimizer switch", ctx.decisions), ctx.why)
		return
	}
	// the switch starts on and can only be turned off: every value merged into
	// it is a constant or the switch itself, so one NoOptimize among the flags
	// decides, wherever it stands
	{
		feeding := map[*ssa.Phi]bool{}
		var add func(v ssa.Value)
		add = func(v ssa.Value) {
			if u, ok := v.(*ssa.UnOp); ok && u.Op == token.NOT {
				v = u.X
			}
			if ph, ok := v.(*ssa.Phi); ok && !feeding[ph] {
				feeding[ph] = true
				for _, e := range ph.Edges {
					add(e)
				}
			}
		}
		for _, d := range decisions {
			add(d.Cond)
		}
		bad := token.NoPos
		sawFalse := false
		for ph := range feeding {
			for i, e := range ph.Edges {
				switch x := e.(type) {
				case *ssa.Phi:
				case *ssa.Const:
					if x.Value != nil && x.Value.Kind() == constant.Bool && !constant.BoolVal(x.Value) {
						sawFalse = true
					}
				default:
					// `switch = switch && x`: the computed value arrives only
					// from where the switch was still on
					pd := ph.Block().Preds[i]
					carried := false
					for d := pd; d != nil && d.Idom() != nil; d = d.Idom() {
						if iff, ok := terminator(d.Idom()).(*ssa.If); ok {
							if cp, ok := iff.Cond.(*ssa.Phi); ok && feeding[cp] && d.Idom().Succs[0] == d && len(d.Preds) == 1 {
								carried = true
							}
						}
					}
					if carried {
						sawFalse = true
						continue
					}
					bad = ph.Pos()
					if ins, ok := e.(ssa.Instruction); ok && ins.Pos().IsValid() {
						bad = ins.Pos()
					}
				}
			}
		}
		mkey := "the optimizer switch is only ever turned off by a flag"
		switch {
		case bad.IsValid():
			r.Fail(mkey, p.Pos(bad), "the switch is assigned a computed value while the flags are scanned: a later group of flags can turn the optimizer back on, so NoOptimize is honoured only in some positions of the arguments")
		case !sawFalse:
			r.Fail(mkey, p.Pos(fn.Pos()), "nothing ever turns the switch off")
		default:
			r.OkNT(mkey, p.Pos(fn.Pos()), "merged from the constants true (initially) and false (a flag was seen) only")
		}
	}
	// every region guarded by a flag-dependent branch may only set / remove /
	// look up one variable of constant name: the optimizer switch
	good, why := true, ""
	names := map[string]bool{}
	nSet := 0
	for _, d := range decisions {
		tb := d.Block().Succs[0]
		if negated[d] {
			tb = d.Block().Succs[1]
		}
		// both sides of a flag-dependent branch are flag-dependent regions
		for _, side := range d.Block().Succs {
			if side != tb && len(side.Preds) == 1 {
				for _, ins := range side.Instrs {
					switch x := ins.(type) {
					case *ssa.Call:
						cal := x.Call.StaticCallee()
						if cal != nil && recvNamed(cal, "environment", "Environment") {
							continue
						}
						if cal != nil && fnPkg(cal) != nil && (fnPkg(cal).Pkg.Path() == "bytes" || fnPkg(cal).Pkg.Path() == "strings") {
							continue // scanning the flags themselves
						}
						good, why = false, "a branch of Prepare that depends on the flag does more than handle the optimizer switch: it calls "+calleeFullName(&x.Call)
					case *ssa.Store:
						base := x.Addr
						if fa, ok := base.(*ssa.FieldAddr); ok {
							base = fa.X
						}
						if _, isAlloc := base.(*ssa.Alloc); !isAlloc {
							good, why = false, "a branch of Prepare that depends on the flag stores into evaluator state"
						}
					}
				}
			}
		}
		if len(tb.Preds) != 1 {
			continue
		}
		for _, b := range fn.Blocks {
			if !(b == tb || tb.Dominates(b)) {
				continue
			}
			for _, ins := range b.Instrs {
				switch x := ins.(type) {
				case *ssa.Call:
					cal := x.Call.StaticCallee()
					if cal != nil && recvNamed(cal, "environment", "Environment") && len(x.Call.Args) >= 2 {
						if c, ok := x.Call.Args[1].(*ssa.Const); ok && c.Value != nil {
							names[c.Value.ExactString()] = true
							if cal.Name() == "Set" && !restoresRead(x) {
								nSet++
							}
							continue
						}
					}
					if cal != nil && fnPkg(cal) != nil && (fnPkg(cal).Pkg.Path() == "bytes" || fnPkg(cal).Pkg.Path() == "strings") {
						continue // scanning the flags themselves
					}
					good, why = false, "a branch of Prepare that depends on the flag does more than handle the optimizer switch: it calls "+calleeFullName(&x.Call)
				case *ssa.Store:
					base := x.Addr
					if fa, ok := base.(*ssa.FieldAddr); ok {
						base = fa.X
					}
					if ia, ok := base.(*ssa.IndexAddr); ok {
						base = ia.X
					}
					if _, isAlloc := base.(*ssa.Alloc); !isAlloc {
						good, why = false, "a branch of Prepare that depends on the flag stores into evaluator state"
					}
				case *ssa.MapUpdate, *ssa.Go, *ssa.Defer, *ssa.Send, *ssa.Panic:
					good, why = false, "a branch of Prepare that depends on the flag has other effects"
				case *ssa.Return:
					if !isSuccessReturn(x) || true {
						// an early return under the flag would skip the rest of Prepare
						if b != fn.Blocks[len(fn.Blocks)-1] && tb.Dominates(b) && b == tb {
							good, why = false, "Prepare returns early depending on the flag"
						}
					}
				}
			}
		}
	}
	if good && (len(names) != 1 || nSet != 1) {
		good, why = false, fmt.Sprintf("the flag-dependent branches of Prepare touch %d variable name(s) and set %d time(s); expected exactly the optimizer switch, set once", len(names), nSet)
	}
	r.Check(good, "NoOptimize only switches the optimizer", p.Pos(decisions[0].Pos()), fmt.Sprintf("%d flag-dependent branch(es), all handling only the optimizer switch", len(decisions)), why)
}

// ---------------------------------------------------------------------------
// R-DRIVER

func ruleDriver(p *Program, r *Reporter) {
	a := needAnchors(p, r)
	if a == nil {
		return
	}
	var cmdFns []*ssa.Function
	for _, fn := range p.Fns {
		if fnPkg(fn).Pkg.Path() == cmdPkg {
			cmdFns = append(cmdFns, fn)
		}
	}
	if len(cmdFns) == 0 {
		r.Undecided("driver package", "-", "package cmd/evalfilter not loaded")
		return
	}
	setCtx := p.Fn("evalfilter.(*Eval).SetContext")
	noOpt := int64(-1)
	if c, ok := p.ByPath[Mod].Types.Scope().Lookup("NoOptimize").(*types.Const); ok {
		noOpt, _ = constant.Int64Val(c.Val())
	}
	// registered flag names → field
	flagField := map[string]string{}  // "pkg.Type.field" by flag name
	flagDefault := map[string]int64{} // numeric default by field
	for _, fn := range cmdFns {
		for _, b := range fn.Blocks {
			for _, ins := range b.Instrs {
				c, ok := ins.(*ssa.Call)
				if !ok || c.Call.StaticCallee() == nil || !strings.HasSuffix(c.Call.StaticCallee().Name(), "Var") || len(c.Call.Args) < 3 {
					continue
				}
				if k, ok := c.Call.Args[2].(*ssa.Const); ok && k.Value != nil && k.Value.Kind() == constant.String {
					flagField[constant.StringVal(k.Value)+" in "+recvName(fn)] = fieldKey(c.Call.Args[1])
					if len(c.Call.Args) > 3 {
						if dk, ok := c.Call.Args[3].(*ssa.Const); ok {
							if n, ok := constInt(dk); ok {
								flagDefault[fieldKey(c.Call.Args[1])] = n
							}
						}
					}
				}
			}
		}
	}
	// (0) what a flag was given on the command line is what it stays: the
	// field a flag is bound to is written by the flag package only
	{
		type bound struct {
			name, field string
			pos         token.Pos
		}
		var bs []bound
		for name, field := range flagField {
			if field != "" {
				bs = append(bs, bound{name, field, token.NoPos})
			}
		}
		sort.Slice(bs, func(i, j int) bool { return bs[i].name < bs[j].name })
		for _, bd := range bs {
			bad := token.NoPos
			who := ""
			for _, fn := range cmdFns {
				for _, b := range fn.Blocks {
					for _, ins := range b.Instrs {
						st, ok := ins.(*ssa.Store)
						if !ok || fieldKey(st.Addr) != bd.field || bad.IsValid() {
							continue
						}
						bad, who = st.Pos(), p.FnName(fn)
					}
				}
			}
			r.Check(!bad.IsValid(), "flag -"+bd.name+"/keeps the value given on the command line", p.Pos(bad), "the field the flag is bound to is written by the flag package only", who+" assigns to the field the flag is bound to: a later script (or a later step) of the same invocation is run with a value the user did not give — a -timeout that has been used up becomes 0, which is the value for \"no time limit\"")
		}
	}
	// the functions of the driver through which Prepare / SetContext are reached
	reachesFn := func(target *ssa.Function) map[*ssa.Function]bool {
		out := map[*ssa.Function]bool{}
		for changed := true; changed; {
			changed = false
			for _, fn := range cmdFns {
				if out[fn] {
					continue
				}
				for _, b := range fn.Blocks {
					for _, ins := range b.Instrs {
						if cc := callOf(ins); cc != nil && cc.StaticCallee() != nil && (cc.StaticCallee() == target || out[cc.StaticCallee()]) && !out[fn] {
							out[fn] = true
							changed = true
						}
					}
				}
			}
		}
		return out
	}
	preparing, contexting := reachesFn(a.prepare), reachesFn(setCtx)
	// (1) SetContext never after Prepare — whichever function of the driver
	// each of the two calls is made in
	for _, fn := range cmdFns {
		var first ssa.Instruction
		late := token.NoPos
		sets := false
		for _, b := range fn.Blocks {
			for _, ins := range b.Instrs {
				cc := callOf(ins)
				if cc == nil || cc.StaticCallee() == nil {
					continue
				}
				if cc.StaticCallee() == setCtx || contexting[cc.StaticCallee()] {
					sets = true
				}
				if cc.StaticCallee() != a.prepare && !preparing[cc.StaticCallee()] {
					continue
				}
				// the evaluator that was prepared: the receiver / an argument of
				// the call, or what it hands back
				evs := evalValuesOf(ins, cc)
				if len(evs) == 0 {
					continue // prepared and used inside the callee: judged there
				}
				if first == nil {
					first = ins
				}
				walkForward(ins, func(i2 ssa.Instruction) bool {
					if c2 := callOf(i2); c2 != nil && c2.StaticCallee() != nil && (c2.StaticCallee() == setCtx || contexting[c2.StaticCallee()]) {
						for _, a2 := range c2.Args {
							for _, ev := range evs {
								if sameOrigin(a2, ev) {
									late = i2.Pos()
								}
							}
						}
					}
					return false
				})
			}
		}
		if first != nil && sets {
			r.Check(!late.IsValid(), p.FnName(fn)+"/context is set before Prepare", p.Pos(first.Pos()), "no SetContext is reachable after Prepare", "SetContext is called after Prepare ("+p.Pos(late)+"): the machine built by Prepare keeps the old context and the -timeout flag has no effect")
		}
	}
	// (1b) -timeout reaches the evaluator for every value but the one that
	// stands for "not given": the deadline is installed under `flag != default`
	// and under nothing narrower
	{
		tfields := map[string]bool{}
		for k, f := range flagField {
			if strings.HasPrefix(k, "timeout in ") && f != "" {
				tfields[f] = true
			}
		}
		nth := 0
		for _, fn := range cmdFns {
			for _, b := range fn.Blocks {
				for _, ins := range b.Instrs {
					cc := callOf(ins)
					if cc == nil || cc.StaticCallee() == nil || cc.StaticCallee().Pkg == nil || cc.StaticCallee().Pkg.Pkg.Path() != "context" || !strings.HasPrefix(cc.StaticCallee().Name(), "WithTimeout") {
						continue
					}
					if len(tfields) == 0 || len(cc.Args) < 2 || !carriesFlag(p, cc.Args[1], tfields, 0, map[ssa.Value]bool{}) {
						continue
					}
					nth++
					key := fmt.Sprintf("%s/deadline %d is installed for every -timeout but the default", p.FnName(fn), nth)
					bad := ""
					for d := b; d.Idom() != nil; d = d.Idom() {
						iff, ok := terminator(d.Idom()).(*ssa.If)
						if !ok {
							continue
						}
						bo, ok := iff.Cond.(*ssa.BinOp)
						if !ok {
							continue
						}
						var other ssa.Value
						switch {
						case carriesFlag(p, bo.X, tfields, 0, map[ssa.Value]bool{}):
							other = bo.Y
						case carriesFlag(p, bo.Y, tfields, 0, map[ssa.Value]bool{}):
							other = bo.X
						default:
							continue
						}
						k, isK := other.(*ssa.Const)
						onTrue := d.Idom().Succs[0] == d
						switch {
						case !isK:
							bad = "the test compares the flag with something that is not a constant"
						case bo.Op == token.NEQ && onTrue, bo.Op == token.EQL && !onTrue:
							n, ok := constInt(k)
							if !ok {
								bad = "the test compares the flag with something that is not a number"
							}
							for f := range tfields {
								if def, has := flagDefault[f]; !has || def != n {
									bad = fmt.Sprintf("the flag is compared with %d, which is not the default it is registered with: without -timeout the script is run under a deadline that Execute would not have", n)
								}
							}
						default:
							bad = "the deadline is installed under `" + bo.Op.String() + "`, not under \"differs from the default\""
						}
					}
					r.Check(bad == "", key, p.Pos(ins.Pos()), "the only test of the flag on the way is `!= 0`", bad+": some values of -timeout that the user can give — a negative one, which used to mean \"already expired\" — silently run the script with no limit at all")
				}
			}
		}
	}
	for _, fn := range cmdFns {
		prepCalls := callsTo(fn, a.prepare)
		if len(prepCalls) == 0 {
			continue
		}
		base := p.FnName(fn)
		// (2) -no-optimizer reaches Prepare as NoOptimize
		field := flagField["no-optimizer in "+recvName(fn)]
		noOptFields := map[string]bool{}
		if field != "" {
			noOptFields[field] = true
		} else if fn.Signature.Recv() == nil {
			// a stage of the sub-command that is a plain function: the flag
			// reaches it as a parameter, from whichever sub-command calls it
			for k, f := range flagField {
				if strings.HasPrefix(k, "no-optimizer in ") && f != "" {
					noOptFields[f] = true
					field = f
				}
			}
		}
		isFlag := func(v ssa.Value) bool { return carriesFlag(p, v, noOptFields, 0, map[ssa.Value]bool{}) }
		if field == "" {
			r.Fail(base+"/-no-optimizer reaches Prepare", p.Pos(fn.Pos()), "this sub-command prepares a script but registers no -no-optimizer flag")
		} else {
			reaches := false
			for _, pc := range prepCalls {
				vals, known := varargsOf(pc.Common().Args[len(pc.Common().Args)-1])
				if !known {
					continue
				}
				for _, v := range vals {
					// v is the []byte value: a φ of nil and append(…, NoOptimize) under If(field)
					for _, o := range origins(v) {
						ap, ok := isBuiltinCall(o, "append")
						if !ok {
							continue
						}
						elems, known := varargsOf(ap.Call.Args[1])
						if !known {
							continue
						}
						for _, e := range elems {
							if n, ok := constInt(e); ok && n == noOpt {
								// control: dominated by the true edge of a load of the flag field
								for d := ap.Block(); d.Idom() != nil; d = d.Idom() {
									if iff, ok := terminator(d.Idom()).(*ssa.If); ok {
										if d.Idom().Succs[0] == d && isFlag(iff.Cond) {
											reaches = true
										}
									}
								}
							}
						}
					}
				}
			}
			r.Check(reaches, base+"/-no-optimizer reaches Prepare", p.Pos(prepCalls[0].Pos()), "NoOptimize is appended under the flag and passed to Prepare", "the -no-optimizer flag does not reach Prepare as evalfilter.NoOptimize (appended exactly when the flag is set)")
		}
		// (3) the decoded JSON document is what Execute runs against, and the
		// report prints Type/Inspect/True of its result
		exCalls := callsTo(fn, a.execute)
		if len(exCalls) == 0 {
			continue
		}
		ex := exCalls[0].(*ssa.Call)
		decoded := false
		var slot *ssa.Alloc
		if mi, ok := ex.Call.Args[1].(*ssa.MakeInterface); ok {
			if ld, ok := mi.X.(*ssa.UnOp); ok && ld.Op == token.MUL {
				slot, _ = ld.X.(*ssa.Alloc)
			}
		}
		if slot != nil {
			for _, ref := range *slot.Referrers() {
				if mi, ok := ref.(*ssa.MakeInterface); ok {
					for _, r2 := range liveRefs(mi) {
						if c, ok := r2.(*ssa.Call); ok && c.Call.StaticCallee() != nil && c.Call.StaticCallee().Name() == "Unmarshal" {
							decoded = true
						}
					}
				}
			}
		}
		if !decoded {
			// the document read by a helper that hands it back: every value it
			// returns in that place is the variable json.Unmarshal filled
			var fromHelper func(v ssa.Value, depth int) bool
			fromHelper = func(v ssa.Value, depth int) bool {
				if depth > 4 {
					return false
				}
				for {
					if mi, ok := v.(*ssa.MakeInterface); ok {
						v = mi.X
						continue
					}
					break
				}
				if ld, ok := v.(*ssa.UnOp); ok && ld.Op == token.MUL {
					if al, ok := ld.X.(*ssa.Alloc); ok && al.Referrers() != nil {
						for _, ref := range *al.Referrers() {
							if mi, ok := ref.(*ssa.MakeInterface); ok {
								for _, r2 := range liveRefs(mi) {
									if c, ok := r2.(*ssa.Call); ok && c.Call.StaticCallee() != nil && c.Call.StaticCallee().Name() == "Unmarshal" {
										return true
									}
								}
							}
						}
					}
				}
				os := []ssa.Value{v}
				switch v.(type) {
				case *ssa.Extract, *ssa.Call:
				default:
					os = origins(v)
				}
				for _, o := range os {
					for {
						if mi, ok := o.(*ssa.MakeInterface); ok {
							o = mi.X
							continue
						}
						break
					}
					var cl *ssa.Call
					idx := 0
					switch x := o.(type) {
					case *ssa.Extract:
						cl, _ = x.Tuple.(*ssa.Call)
						idx = x.Index
					case *ssa.Call:
						cl = x
					case *ssa.UnOp:
						// a load of a local that Unmarshal was given the address of
						if al, ok := x.X.(*ssa.Alloc); ok && al.Referrers() != nil {
							hit := false
							for _, ref := range *al.Referrers() {
								if mi, ok := ref.(*ssa.MakeInterface); ok {
									for _, r2 := range liveRefs(mi) {
										if c, ok := r2.(*ssa.Call); ok && c.Call.StaticCallee() != nil && c.Call.StaticCallee().Name() == "Unmarshal" {
											hit = true
										}
									}
								}
							}
							if hit {
								continue
							}
						}
						return false
					default:
						return false
					}
					if cl == nil || cl.Call.StaticCallee() == nil || len(cl.Call.StaticCallee().Blocks) == 0 {
						return false
					}
					n := 0
					for _, hb := range cl.Call.StaticCallee().Blocks {
						if ret, ok := terminator(hb).(*ssa.Return); ok && idx < len(ret.Results) {
							rv := ret.Results[idx]
							if isNilConst(rv) {
								continue // the failing exits: the caller does not go on with them
							}
							if !fromHelper(rv, depth+1) {
								return false
							}
							n++
						}
					}
					if n == 0 {
						return false
					}
				}
				return true
			}
			decoded = fromHelper(ex.Call.Args[1], 0)
			if os.Getenv("EVCHECK_DEBUG_DRIVER") != "" {
				fmt.Fprintf(os.Stderr, "driver: arg=%T %v decoded=%v\n", ex.Call.Args[1], ex.Call.Args[1], decoded)
			}
		}
		r.Check(decoded, base+"/Execute runs against the decoded JSON document", p.Pos(ex.Pos()), "the object passed to Execute is the one json.Unmarshal filled", "the object passed to Execute is not the variable the JSON file was decoded into")
		got := map[string]bool{}
		var invoked func(v ssa.Value, depth int)
		invoked = func(v ssa.Value, depth int) {
			if depth > 3 {
				return
			}
			for _, r2 := range liveRefs(v) {
				c, ok := r2.(*ssa.Call)
				if !ok {
					continue
				}
				if c.Call.IsInvoke() && c.Call.Value == v {
					got[c.Call.Method.Name()] = true
					continue
				}
				// handed to a function of the driver that reports it
				if cal := c.Call.StaticCallee(); cal != nil && len(cal.Blocks) > 0 && fnPkg(cal) != nil && strings.HasPrefix(fnPkg(cal).Pkg.Path(), Mod) {
					for i, a := range c.Call.Args {
						if a == v && i < len(cal.Params) {
							invoked(cal.Params[i], depth+1)
						}
					}
				}
			}
		}
		for _, ref := range liveRefs(ex) {
			if e, ok := ref.(*ssa.Extract); ok && e.Index == 0 {
				invoked(e, 0)
			}
		}
		r.Check(got["Type"] && got["Inspect"] && got["True"], base+"/report shows type, value and truth of Execute's result", p.Pos(ex.Pos()), "Type(), Inspect() and True() of the result", fmt.Sprintf("the report does not call Type(), Inspect() and True() on Execute's result (calls: %v)", got))
		// the report is printed on every path that follows a successful
		// Execute: nothing (a failing conversion of the result to JSON, say)
		// ends the command before the type, value and truth were written
		{
			var resVal ssa.Value
			for _, ref := range liveRefs(ex) {
				if e, ok := ref.(*ssa.Extract); ok && e.Index == 0 {
					resVal = e
				}
			}
			fromResult := func(v ssa.Value) string {
				for depth := 0; depth < 6; depth++ {
					switch x := v.(type) {
					case *ssa.MakeInterface:
						v = x.X
						continue
					case *ssa.ChangeType:
						v = x.X
						continue
					case *ssa.Convert:
						v = x.X
						continue
					case *ssa.Call:
						if x.Call.IsInvoke() && x.Call.Value == resVal {
							return x.Call.Method.Name()
						}
					}
					break
				}
				return ""
			}
			printBlocks := map[string][]*ssa.BasicBlock{}
			// printsAlways: h prints m() of its parameter prm on every path from
			// its entry to its exits
			var printsAlways func(h *ssa.Function, prm *ssa.Parameter, m string, depth int) bool
			printsAlways = func(h *ssa.Function, prm *ssa.Parameter, m string, depth int) bool {
				if depth > 2 || len(h.Blocks) == 0 {
					return false
				}
				stop := map[*ssa.BasicBlock]bool{}
				for _, hb := range h.Blocks {
					for _, hi := range hb.Instrs {
						c, ok := hi.(*ssa.Call)
						if !ok || c.Call.StaticCallee() == nil {
							continue
						}
						cal := c.Call.StaticCallee()
						if cal.Pkg != nil && cal.Pkg.Pkg.Path() == "fmt" && len(c.Call.Args) > 0 {
							if n := cal.Name(); strings.HasPrefix(n, "Print") || strings.HasPrefix(n, "Fprint") || strings.HasPrefix(n, "Sprint") {
								if elems, known := varargsOf(c.Call.Args[len(c.Call.Args)-1]); known {
									for _, e := range elems {
										for e != nil {
											if mi, ok := e.(*ssa.MakeInterface); ok {
												e = mi.X
												continue
											}
											if ct, ok := e.(*ssa.ChangeType); ok {
												e = ct.X
												continue
											}
											break
										}
										if ic, ok := e.(*ssa.Call); ok && ic.Call.IsInvoke() && ic.Call.Value == ssa.Value(prm) && ic.Call.Method.Name() == m {
											stop[hb] = true
										}
									}
								}
							}
							continue
						}
						if len(cal.Blocks) > 0 {
							for i, a := range c.Call.Args {
								if a == ssa.Value(prm) && i < len(cal.Params) && printsAlways(cal, cal.Params[i], m, depth+1) {
									stop[hb] = true
								}
							}
						}
					}
				}
				if len(stop) == 0 {
					return false
				}
				okAll := true
				seen := map[*ssa.BasicBlock]bool{}
				var walk func(b *ssa.BasicBlock)
				walk = func(b *ssa.BasicBlock) {
					if seen[b] || stop[b] || !okAll {
						return
					}
					seen[b] = true
					if _, isRet := terminator(b).(*ssa.Return); isRet {
						okAll = false
						return
					}
					for _, sc := range b.Succs {
						walk(sc)
					}
				}
				walk(h.Blocks[0])
				return okAll
			}
			for _, b := range fn.Blocks {
				for _, ins := range b.Instrs {
					c, ok := ins.(*ssa.Call)
					if ok && c.Call.StaticCallee() != nil && len(c.Call.StaticCallee().Blocks) > 0 && resVal != nil {
						cal := c.Call.StaticCallee()
						for i, a := range c.Call.Args {
							if a == resVal && i < len(cal.Params) {
								for _, m := range []string{"Type", "Inspect", "True"} {
									if printsAlways(cal, cal.Params[i], m, 0) {
										printBlocks[m] = append(printBlocks[m], b)
									}
								}
							}
						}
					}
					if !ok || c.Call.StaticCallee() == nil || c.Call.StaticCallee().Pkg == nil || c.Call.StaticCallee().Pkg.Pkg.Path() != "fmt" || len(c.Call.Args) == 0 {
						continue
					}
					if n := c.Call.StaticCallee().Name(); !strings.HasPrefix(n, "Print") && !strings.HasPrefix(n, "Fprint") && !strings.HasPrefix(n, "Sprint") {
						continue
					}
					elems, known := varargsOf(c.Call.Args[len(c.Call.Args)-1])
					if !known {
						continue
					}
					for _, e := range elems {
						if e == nil {
							continue
						}
						if m := fromResult(e); m != "" {
							printBlocks[m] = append(printBlocks[m], b)
						}
					}
				}
			}
			key := base + "/the report is printed on every path after a successful Execute"
			if resVal == nil || len(printBlocks["Type"]) == 0 || len(printBlocks["Inspect"]) == 0 || len(printBlocks["True"]) == 0 {
				r.Undecided(key, p.Pos(ex.Pos()), "cannot find the print call(s) that receive Type(), Inspect() and True() of Execute's result")
			} else {
				// the successor taken when Execute's error is nil
				var start *ssa.BasicBlock
				for _, ref := range liveRefs(ex) {
					e, ok := ref.(*ssa.Extract)
					if !ok || e.Index != 1 {
						continue
					}
					for _, r2 := range liveRefs(e) {
						if bo, ok := r2.(*ssa.BinOp); ok && (bo.Op == token.NEQ || bo.Op == token.EQL) && (isNilConst(bo.X) || isNilConst(bo.Y)) {
							for _, r3 := range liveRefs(bo) {
								if iff, ok := r3.(*ssa.If); ok {
									if bo.Op == token.NEQ {
										start = iff.Block().Succs[1]
									} else {
										start = iff.Block().Succs[0]
									}
								}
							}
						}
					}
				}
				if start == nil {
					start = ex.Block()
				}
				missing := ""
				var missPos token.Pos
				for _, m := range []string{"Type", "Inspect", "True"} {
					stop := map[*ssa.BasicBlock]bool{}
					for _, b := range printBlocks[m] {
						stop[b] = true
					}
					seen := map[*ssa.BasicBlock]bool{}
					var walk func(b *ssa.BasicBlock)
					walk = func(b *ssa.BasicBlock) {
						if seen[b] || stop[b] || missing != "" {
							return
						}
						seen[b] = true
						for _, ins := range b.Instrs {
							if c, ok := ins.(*ssa.Call); ok && c.Call.StaticCallee() != nil && c.Call.StaticCallee().String() == "os.Exit" {
								missing, missPos = m, c.Pos()
								return
							}
						}
						if ret, ok := terminator(b).(*ssa.Return); ok {
							missing, missPos = m, ret.Pos()
							return
						}
						for _, sc := range b.Succs {
							walk(sc)
						}
					}
					walk(start)
				}
				if missing != "" {
					r.Fail(key, p.Pos(missPos), "after Execute returned a result the command can end here without having printed "+missing+"() of that result: the driver then says less than Execute did (the type, printed value and truth of the result are what it is there to report)")
				} else {
					r.OkNT(key, p.Pos(ex.Pos()), "every path from the successful Execute to the end of the command passes the print of Type(), Inspect() and True()")
				}
			}
		}
		// error path: an Execute error is reported and ends the command
		errReported := false
		for _, ref := range liveRefs(ex) {
			e, ok := ref.(*ssa.Extract)
			if !ok || e.Index != 1 {
				continue
			}
			for _, r2 := range liveRefs(e) {
				if bo, ok := r2.(*ssa.BinOp); ok && bo.Op == token.NEQ {
					for _, r3 := range liveRefs(bo) {
						if iff, ok := r3.(*ssa.If); ok {
							if _, isRet := terminator(iff.Block().Succs[0]).(*ssa.Return); isRet {
								errReported = true
							}
						}
					}
				}
			}
		}
		r.Check(errReported, base+"/an Execute error ends the report", p.Pos(ex.Pos()), "", "the driver goes on to print a result although Execute returned an error")
	}
	// (4) main recovers
	var mainFn *ssa.Function
	for _, fn := range cmdFns {
		if fn.Name() == "main" && fn.Parent() == nil {
			mainFn = fn
		}
	}
	if mainFn == nil {
		r.Undecided("main", "-", "no main function in the driver")
		return
	}
	recovers := false
	entry := mainFn.Blocks[0]
	for _, ins := range entry.Instrs {
		d, ok := ins.(*ssa.Defer)
		if !ok {
			continue
		}
		var body *ssa.Function
		if mc, ok := d.Call.Value.(*ssa.MakeClosure); ok {
			body, _ = mc.Fn.(*ssa.Function)
		} else {
			body = d.Call.StaticCallee()
		}
		if body == nil {
			continue
		}
		for _, b := range body.Blocks {
			for _, i2 := range b.Instrs {
				if c, ok := i2.(*ssa.Call); ok {
					if bi, ok := c.Call.Value.(*ssa.Builtin); ok && bi.Name() == "recover" {
						recovers = true
					}
				}
			}
		}
	}
	r.Check(recovers, "main recovers panics of the sub-commands", p.Pos(mainFn.Pos()), "deferred recover in main's entry block", "main does not install a deferred recover before dispatching: a panic in Prepare or Dump (which have no recover of their own) ends the driver with a Go stack trace and exit status 2")
}

func recvName(fn *ssa.Function) string {
	root := fn
	for root.Parent() != nil {
		root = root.Parent()
	}
	if rv := root.Signature.Recv(); rv != nil {
		return typeStr(deref(rv.Type()))
	}
	return ""
}

// ---------------------------------------------------------------------------
// R-FOLDAGREE

func ruleFoldAgree(p *Program, r *Reporter) {
	a := needAnchors(p, r)
	if a == nil {
		return
	}
	vmPk := p.ByPath[Mod+"/vm"]
	info := vmPk.TypesInfo
	// the folding callback: switch over the opcode with an OpPush case
	var sw *ast.SwitchStmt
	var fl *ast.FuncLit
	for _, f := range vmPk.Syntax {
		ast.Inspect(f, func(n ast.Node) bool {
			body, _ := callbackBody(info, n)
			if body == nil {
				return true
			}
			lit, _ := n.(*ast.FuncLit)
			for _, st := range body.List {
				s, ok := st.(*ast.SwitchStmt)
				if !ok || s.Tag == nil {
					continue
				}
				if tv, ok := info.Types[s.Tag]; !ok || !isOpcodeType(tv.Type) {
					continue
				}
				for _, cc := range s.Body.List {
					for _, e := range cc.(*ast.CaseClause).List {
						if opConstName(info, e) == "OpPush" {
							sw, fl = s, lit
						}
					}
				}
			}
			return true
		})
	}
	if sw == nil {
		r.Undecided("folding pass", "-", "cannot find the constant-folding callback")
		return
	}
	_ = fl
	// the int/int table of the VM: which result type each opcode has
	var intTable *tableFn
	for _, t := range a.optTables {
		if ex := extractTable(p, t); ex != nil && ex.lType == "Integer" && ex.rType == "Integer" {
			intTable = ex
		}
	}
	if intTable == nil {
		r.Undecided("integer table", "-", "cannot find the VM's int/int operator table")
		return
	}
	// window element order: a := args[len-1] (later push = right operand), b := args[len-2]
	// find the local names bound to args[len(args)-1] and args[len(args)-2] per clause
	for _, cc := range sw.Body.List {
		cl := cc.(*ast.CaseClause)
		var ops []string
		for _, e := range cl.List {
			if n := opConstName(info, e); n != "" {
				ops = append(ops, n)
			}
		}
		if len(ops) == 0 {
			continue
		}
		isPush, isNop := false, false
		for _, o := range ops {
			if o == "OpPush" {
				isPush = true
			}
			if o == "OpNop" {
				isNop = true
			}
		}
		if isPush || isNop {
			continue
		}
		// the fold may have a function of its own: the case only calls it with
		// the window; then that function's body is what is read
		var body ast.Node = cl
		opParam := info.Uses[ast.Unparen(sw.Tag).(*ast.Ident)]
		var foldFn *ssa.Function
		{
			var helpers []*types.Func
			readsWindow := false
			ast.Inspect(cl, func(n ast.Node) bool {
				switch x := n.(type) {
				case *ast.CallExpr:
					if f, ok := calleeObj(info, x).(*types.Func); ok && f.Pkg() != nil && f.Pkg().Path() == Mod+"/vm" {
						helpers = append(helpers, f)
					}
				case *ast.IndexExpr:
					if be, ok := ast.Unparen(x.Index).(*ast.BinaryExpr); ok && be.Op == token.SUB {
						readsWindow = true
					}
				}
				return true
			})
			if !readsWindow && len(helpers) == 1 {
				if g := p.SSA.FuncValue(helpers[0]); g != nil && p.FuncDecl(g) != nil && p.FuncDecl(g).Body != nil {
					body, foldFn = p.FuncDecl(g).Body, g
					opParam = nil
					sig := helpers[0].Type().(*types.Signature)
					for i := 0; i < sig.Params().Len(); i++ {
						if isOpcodeType(sig.Params().At(i).Type()) {
							opParam = sig.Params().At(i)
						}
					}
				}
			}
		}
		// which local is the later push (index len-1) and which the earlier (len-2)
		last, prev := types.Object(nil), types.Object(nil)
		ast.Inspect(body, func(n ast.Node) bool {
			as, ok := n.(*ast.AssignStmt)
			if !ok || len(as.Lhs) != 1 || len(as.Rhs) != 1 {
				return true
			}
			ix, ok := ast.Unparen(as.Rhs[0]).(*ast.IndexExpr)
			if !ok {
				return true
			}
			be, ok := ast.Unparen(ix.Index).(*ast.BinaryExpr)
			if !ok || be.Op != token.SUB {
				return true
			}
			if tv := info.Types[be.Y]; tv.Value != nil {
				k, _ := constant.Int64Val(tv.Value)
				id, _ := as.Lhs[0].(*ast.Ident)
				if id == nil {
					return true
				}
				obj := info.Defs[id]
				if obj == nil {
					obj = info.Uses[id]
				}
				if k == 1 {
					last = obj
				}
				if k == 2 {
					prev = obj
				}
			}
			return true
		})
		// … or the two are handed out together by a function literal kept in a
		// local variable: `a, b, ok := operands()` with
		// `operands := func() (…) { … return W[len(W)-1], W[len(W)-2], true }`
		if last == nil && prev == nil {
			ast.Inspect(body, func(n ast.Node) bool {
				as, ok := n.(*ast.AssignStmt)
				if !ok || len(as.Rhs) != 1 || len(as.Lhs) < 2 {
					return true
				}
				ce, ok := ast.Unparen(as.Rhs[0]).(*ast.CallExpr)
				if !ok {
					return true
				}
				fid, ok := ast.Unparen(ce.Fun).(*ast.Ident)
				if !ok {
					return true
				}
				fobj := info.Uses[fid]
				if fobj == nil {
					return true
				}
				var lit *ast.FuncLit
				for _, f := range p.ByPath[Mod+"/vm"].Syntax {
					ast.Inspect(f, func(m ast.Node) bool {
						a2, ok := m.(*ast.AssignStmt)
						if !ok || len(a2.Lhs) != 1 || len(a2.Rhs) != 1 {
							return true
						}
						if id, ok := a2.Lhs[0].(*ast.Ident); ok && (info.Defs[id] == fobj || info.Uses[id] == fobj) {
							if fl, ok := a2.Rhs[0].(*ast.FuncLit); ok {
								lit = fl
							}
						}
						return true
					})
				}
				if lit == nil {
					return true
				}
				ast.Inspect(lit.Body, func(m ast.Node) bool {
					ret, ok := m.(*ast.ReturnStmt)
					if !ok || len(ret.Results) != len(as.Lhs) {
						return true
					}
					for i, res := range ret.Results {
						ix, ok := ast.Unparen(res).(*ast.IndexExpr)
						if !ok {
							continue
						}
						be, ok := ast.Unparen(ix.Index).(*ast.BinaryExpr)
						if !ok || be.Op != token.SUB {
							continue
						}
						tv := info.Types[be.Y]
						id, _ := as.Lhs[i].(*ast.Ident)
						if tv.Value == nil || id == nil {
							continue
						}
						obj := info.Defs[id]
						if obj == nil {
							obj = info.Uses[id]
						}
						switch k, _ := constant.Int64Val(tv.Value); k {
						case 1:
							last = obj
						case 2:
							prev = obj
						}
					}
					return true
				})
				return true
			})
		}
		side := func(e ast.Expr) string {
			s := ""
			ast.Inspect(e, func(n ast.Node) bool {
				if id, ok := n.(*ast.Ident); ok {
					switch info.Uses[id] {
					case last:
						if last != nil {
							s += "R"
						}
					case prev:
						if prev != nil {
							s += "L"
						}
					}
				}
				return true
			})
			return s
		}
		// per opcode: the computation guarded by `opCode == X` (or the clause's
		// single opcode)
		type comp struct {
			be  *ast.BinaryExpr
			pos token.Pos
		}
		found := map[string][]comp{}
		var walk func(n ast.Node, only string)
		walk = func(n ast.Node, only string) {
			ast.Inspect(n, func(m ast.Node) bool {
				// `switch opCode { case X: … }` inside the fold
				if s2, ok := m.(*ast.SwitchStmt); ok && s2.Tag != nil && opParam != nil {
					if id, ok := ast.Unparen(s2.Tag).(*ast.Ident); ok && info.Uses[id] == opParam {
						for _, c2 := range s2.Body.List {
							cl2 := c2.(*ast.CaseClause)
							for _, e := range cl2.List {
								if o := opConstName(info, e); o != "" {
									for _, st := range cl2.Body {
										walk(st, o)
									}
								}
							}
							if cl2.List == nil {
								for _, st := range cl2.Body {
									walk(st, only)
								}
							}
						}
						return false
					}
				}
				if iff, ok := m.(*ast.IfStmt); ok {
					if be, ok := ast.Unparen(iff.Cond).(*ast.BinaryExpr); ok && be.Op == token.EQL {
						if id, ok := ast.Unparen(be.X).(*ast.Ident); ok && opParam != nil && info.Uses[id] == opParam {
							if o := opConstName(info, be.Y); o != "" {
								walk(iff.Body, o)
								if iff.Else != nil {
									walk(iff.Else, only)
								}
								return false
							}
						}
					}
				}
				if be, ok := m.(*ast.BinaryExpr); ok {
					l, rr := side(be.X), side(be.Y)
					if (l == "L" && rr == "R") || (l == "R" && rr == "L") {
						targets := ops
						if only != "" {
							targets = []string{only}
						}
						for _, o := range targets {
							found[o] = append(found[o], comp{be, be.Pos()})
						}
					}
				}
				return true
			})
		}
		if bs, ok := body.(*ast.BlockStmt); ok {
			for _, st := range bs.List {
				walk(st, "")
			}
		} else {
			for _, st := range cl.Body {
				walk(st, "")
			}
		}
		for _, op := range ops {
			key := "fold of " + op
			if arithOps[op] {
				want := specCellOp[op]
				cs := found[op]
				if len(cs) == 0 {
					r.Undecided(key, p.Pos(cl.Pos()), "cannot find the computation of this fold over the two window entries")
					continue
				}
				good := true
				why := ""
				for _, c := range cs {
					l, rr := side(c.be.X), side(c.be.Y)
					if c.be.Op.String() != want {
						good, why = false, fmt.Sprintf("the fold of %s computes with %q; the VM applies %q", op, c.be.Op, want)
					} else if !(l == "L" && rr == "R") && !commutative(want) {
						good, why = false, fmt.Sprintf("the fold of %s applies its operands as (%s %s %s): the later push must be the right operand, as in the VM", op, l, c.be.Op, rr)
					}
				}
				// result type: integer push must match the VM's int/int cell type
				if good && intTable.clause[op] != nil {
					args := pushArgs(intTable.info, intTable.clause[op].Body)
					if len(args) == 1 {
						if ue, ok := ast.Unparen(args[0]).(*ast.UnaryExpr); ok {
							if cl2, ok := ue.X.(*ast.CompositeLit); ok && objectStructName(intTable.info.Types[cl2].Type) != "Integer" {
								good, why = false, "the VM's result for two integers is not an integer, but the fold writes an integer push"
							}
						}
					}
				}
				r.Check(good, key, p.Pos(cs[0].pos), "same operator and operand order as the VM's int/int cell", why)
			} else if compareOps[op] {
				want := specCellOp[op]
				cs := found[op]
				if len(cs) == 0 {
					r.Undecided(key, p.Pos(cl.Pos()), "cannot find the comparison of this fold")
					continue
				}
				good, why := true, ""
				for _, c := range cs {
					if c.be.Op.String() != want {
						good, why = false, fmt.Sprintf("the fold of %s compares with %q; the VM applies %q", op, c.be.Op, want)
					}
				}
				if !good || len(cs) > 0 {
					// one comparison for all the opcodes, and what is written taken
					// from a table keyed by the opcode: `out := T[opCode]; if a.value
					// == b.value { … byte(out.same) } else { … byte(out.differ) }`
					if ok2, bad2, detail := compareFoldByTable(p, info, body, opParam, op, want, side); ok2 {
						if bad2 {
							r.Fail(key, p.Pos(cs[0].pos), detail)
						} else {
							r.OkNT(key, p.Pos(cs[0].pos), detail)
						}
						continue
					}
				}
				if !good && foldFn != nil {
					// the comparison may be shared and its result turned round for
					// one of the opcodes: what is written for equal / unequal entries
					if ok2, detail := compareFoldByValue(p, foldFn, op, want); ok2 {
						good, why = true, ""
						r.OkNT(key, p.Pos(cs[0].pos), detail)
						continue
					}
				}
				r.Check(good, key, p.Pos(cs[0].pos), "same comparison as the VM", why)
			} else if op == "OpSquareRoot" {
				// VM: the result of √ is always a float; a fold that writes an integer
				// push changes the type
				writesPush := false
				ast.Inspect(body, func(n ast.Node) bool {
					if ce, ok := n.(*ast.CallExpr); ok {
						if f, ok := calleeObj(info, ce).(*types.Func); ok && (f.Name() == "PutUint16" || writesOperandHelper(p, f)) {
							writesPush = true
						}
					}
					return true
				})
				floatInVM := vmSqrtIsFloat(p)
				if writesPush && floatInVM {
					r.Fail(key, p.Pos(cl.Pos()), "the VM's square root always yields a float, but the fold rewrites `push n; √` into an integer push: type(√9) is \"integer\" when optimized and \"float\" otherwise, and integer arithmetic is used downstream where float arithmetic would be")
				} else {
					r.OkNT(key, p.Pos(cl.Pos()), "not folded into an integer push")
				}
			} else {
				r.Info(key, p.Pos(cl.Pos()), "opcode named by the folding pass; not an arithmetic/comparison fold")
			}
		}
		// range check before writing, division by zero not folded
		hasDiv := false
		for _, o := range ops {
			if o == "OpDiv" {
				hasDiv = true
			}
		}
		if hasDiv {
			guarded := false
			ast.Inspect(body, func(n ast.Node) bool {
				iff, ok := n.(*ast.IfStmt)
				if !ok {
					return true
				}
				be, ok := ast.Unparen(iff.Cond).(*ast.BinaryExpr)
				if !ok || be.Op != token.EQL || side(be.X) != "R" {
					return true
				}
				if tv := info.Types[be.Y]; tv.Value != nil && constant.Sign(tv.Value) == 0 {
					for _, st := range iff.Body.List {
						if _, ok := st.(*ast.ReturnStmt); ok {
							guarded = true
						}
					}
				}
				return true
			})
			r.Check(guarded, "fold of OpDiv is not attempted for a zero divisor", p.Pos(cl.Pos()), "right operand tested against zero before dividing", "the folding pass divides by the later push without testing it for zero: Prepare would panic, or a run-time error would be folded away")
		}
		for _, o := range ops {
			if !arithOps[o] {
				continue
			}
			// the write of the result is under a range test
			ranged := false
			// written as a guard that leaves when the result does not fit — the
			// bounds possibly in a predicate of their own — followed by the write
			if bs, ok := body.(*ast.BlockStmt); ok {
				for i, st := range bs.List {
					iff, ok := st.(*ast.IfStmt)
					if !ok || iff.Else != nil || len(iff.Body.List) == 0 {
						continue
					}
					if _, isRet := iff.Body.List[len(iff.Body.List)-1].(*ast.ReturnStmt); !isRet {
						continue
					}
					ue, ok := ast.Unparen(iff.Cond).(*ast.UnaryExpr)
					if !ok || ue.Op != token.NOT {
						continue
					}
					lo, hi := false, false
					ast.Inspect(ue.X, func(m ast.Node) bool {
						switch x := m.(type) {
						case *ast.BinaryExpr:
							switch x.Op {
							case token.GEQ, token.GTR:
								lo = true
							case token.LEQ, token.LSS:
								hi = true
							}
						case *ast.CallExpr:
							if f, ok := calleeObj(info, x).(*types.Func); ok && f.Pkg() != nil && f.Pkg().Path() == Mod+"/vm" {
								if g := p.SSA.FuncValue(f); g != nil && len(g.Params) >= 1 {
									up, low := true, true
									for _, gb := range g.Blocks {
										if ret, ok := terminator(gb).(*ssa.Return); ok {
											if !trueImpliesUpperBound(returnOperand(ret, 0), g.Params[len(g.Params)-1], 0) {
												up = false
											}
											if !trueImpliesLowerBound(returnOperand(ret, 0), g.Params[len(g.Params)-1], 0) {
												low = false
											}
										}
									}
									lo, hi = lo || low, hi || up
								}
							}
						}
						return true
					})
					if !(lo && hi) {
						continue
					}
					for _, later := range bs.List[i+1:] {
						ast.Inspect(later, func(m ast.Node) bool {
							if ce, ok := m.(*ast.CallExpr); ok {
								if f, ok := calleeObj(info, ce).(*types.Func); ok && (f.Name() == "PutUint16" || writesOperandHelper(p, f)) {
									ranged = true
								}
							}
							return true
						})
					}
				}
			}
			ast.Inspect(body, func(n ast.Node) bool {
				iff, ok := n.(*ast.IfStmt)
				if !ok {
					return true
				}
				hasPut := false
				ast.Inspect(iff.Body, func(m ast.Node) bool {
					if ce, ok := m.(*ast.CallExpr); ok {
						if f, ok := calleeObj(info, ce).(*types.Func); ok && (f.Name() == "PutUint16" || writesOperandHelper(p, f)) {
							hasPut = true
						}
					}
					return true
				})
				if !hasPut {
					return true
				}
				lo, hi := false, false
				ast.Inspect(iff.Cond, func(m ast.Node) bool {
					if be, ok := m.(*ast.BinaryExpr); ok {
						switch be.Op {
						case token.GEQ, token.GTR:
							lo = true
						case token.LEQ, token.LSS:
							hi = true
						}
					}
					return true
				})
				if lo && hi {
					ranged = true
				}
				return true
			})
			r.Check(ranged, "fold of "+o+" range-checks its result", p.Pos(cl.Pos()), "the result is written into a push only when it fits", "the folded result is written into a 16-bit push without a lower and an upper bound test: negative or large results are truncated")
			break
		}
	}
	_ = sort.Strings
}

// writesOperandHelper: a function of the module that encodes a 16-bit operand
// (calls PutUint16) on behalf of its caller.
func writesOperandHelper(p *Program, f *types.Func) bool {
	if f.Pkg() == nil || !strings.HasPrefix(f.Pkg().Path(), Mod) {
		return false
	}
	for _, fn := range p.LibFns {
		if fn.Object() != types.Object(f) {
			continue
		}
		for _, b := range fn.Blocks {
			for _, ins := range b.Instrs {
				if cc := callOf(ins); cc != nil {
					name := ""
					if cc.IsInvoke() {
						name = cc.Method.Name()
					} else if c := cc.StaticCallee(); c != nil {
						name = c.Name()
					}
					if name == "PutUint16" {
						return true
					}
				}
			}
		}
	}
	return false
}

func commutative(op string) bool { return op == "+" || op == "*" || op == "==" || op == "!=" }

// vmSqrtIsFloat: every result the VM's square-root handler pushes is a Float.
func vmSqrtIsFloat(p *Program) bool {
	for _, fn := range p.LibFns {
		if fnPkg(fn).Pkg.Path() != Mod+"/vm" {
			continue
		}
		callsSqrt := false
		allFloat, n := true, 0
		for _, b := range fn.Blocks {
			for _, ins := range b.Instrs {
				if c, ok := ins.(*ssa.Call); ok && c.Call.StaticCallee() != nil && c.Call.StaticCallee().String() == "math.Sqrt" {
					callsSqrt = true
				}
				if al, ok := ins.(*ssa.Alloc); ok && al.Heap {
					if tn := objectStructName(al.Type()); tn != "" {
						n++
						if tn != "Float" {
							allFloat = false
						}
					}
				}
			}
		}
		if callsSqrt && fn.Signature.Recv() != nil && len(sigParams(fn)) == 0 {
			return allFloat && n > 0
		}
	}
	return false
}

// compareFoldByValue: the function that folds a comparison of the two window
// entries, evaluated for the opcode: with the entries' values equal it must
// write what the VM's operator gives for equal integers, with them unequal the
// opposite.  Every == / != between two values read from entries of one list
// stands for "the entries are equal" / its negation.
// compareFoldByTable: the fold compares the two entries once (== or !=) and
// writes, on either side, a field of a value looked up by the opcode in a
// package-level map literal that is never written.  Reports whether that
// shape was found, whether the entry for op is wrong, and the detail.
func compareFoldByTable(p *Program, info *types.Info, body ast.Node, opParam types.Object, op, want string, side func(ast.Expr) string) (found bool, bad bool, detail string) {
	if opParam == nil {
		return false, false, ""
	}
	// out := T[opCode]
	var outObj types.Object
	var table *types.Var
	ast.Inspect(body, func(n ast.Node) bool {
		as, ok := n.(*ast.AssignStmt)
		if !ok || len(as.Lhs) != 1 || len(as.Rhs) != 1 {
			return true
		}
		ix, ok := ast.Unparen(as.Rhs[0]).(*ast.IndexExpr)
		if !ok {
			return true
		}
		kid, ok := ast.Unparen(ix.Index).(*ast.Ident)
		if !ok || info.Uses[kid] != opParam {
			return true
		}
		tid, ok := ast.Unparen(ix.X).(*ast.Ident)
		if !ok {
			return true
		}
		tv, ok := info.Uses[tid].(*types.Var)
		if !ok || tv.Pkg() == nil || tv.Parent() != tv.Pkg().Scope() {
			return true
		}
		if id, ok := as.Lhs[0].(*ast.Ident); ok {
			outObj = info.Defs[id]
			if outObj == nil {
				outObj = info.Uses[id]
			}
			table = tv
		}
		return true
	})
	if outObj == nil || table == nil {
		return false, false, ""
	}
	sp := p.SSAPkg[table.Pkg().Path()]
	if sp == nil {
		return false, false, ""
	}
	if g, ok := sp.Members[table.Name()].(*ssa.Global); !ok || !globalNeverWritten(p, g) {
		return false, false, ""
	}
	// the comparison and what each side writes
	fieldWritten := func(stmts []ast.Stmt) string {
		f := ""
		for _, st := range stmts {
			ast.Inspect(st, func(n ast.Node) bool {
				as, ok := n.(*ast.AssignStmt)
				if !ok || len(as.Lhs) != 1 || len(as.Rhs) != 1 {
					return true
				}
				if _, isIx := ast.Unparen(as.Lhs[0]).(*ast.IndexExpr); !isIx {
					return true
				}
				ast.Inspect(as.Rhs[0], func(m ast.Node) bool {
					if se, ok := m.(*ast.SelectorExpr); ok {
						if id, ok := ast.Unparen(se.X).(*ast.Ident); ok && info.Uses[id] == outObj {
							f = se.Sel.Name
						}
					}
					return true
				})
				return true
			})
		}
		return f
	}
	var cmpOp token.Token
	onTrue, onFalse := "", ""
	ast.Inspect(body, func(n ast.Node) bool {
		iff, ok := n.(*ast.IfStmt)
		if !ok || iff.Else == nil {
			return true
		}
		be, ok := ast.Unparen(iff.Cond).(*ast.BinaryExpr)
		if !ok || (be.Op != token.EQL && be.Op != token.NEQ) {
			return true
		}
		l, rr := side(be.X), side(be.Y)
		if !((l == "L" && rr == "R") || (l == "R" && rr == "L")) {
			return true
		}
		eb, ok := iff.Else.(*ast.BlockStmt)
		if !ok {
			return true
		}
		t, f := fieldWritten(iff.Body.List), fieldWritten(eb.List)
		if t != "" && f != "" {
			cmpOp, onTrue, onFalse = be.Op, t, f
		}
		return true
	})
	if onTrue == "" {
		return false, false, ""
	}
	// the table's entry for op
	var entry map[string]string
	for _, f := range p.ByPath[table.Pkg().Path()].Syntax {
		ast.Inspect(f, func(n ast.Node) bool {
			vs, ok := n.(*ast.ValueSpec)
			if !ok {
				return true
			}
			for i, nm := range vs.Names {
				if info.Defs[nm] != types.Object(table) || i >= len(vs.Values) {
					continue
				}
				cl, ok := vs.Values[i].(*ast.CompositeLit)
				if !ok {
					continue
				}
				for _, el := range cl.Elts {
					kv, ok := el.(*ast.KeyValueExpr)
					if !ok || opConstName(info, kv.Key) != op {
						continue
					}
					vcl, ok := kv.Value.(*ast.CompositeLit)
					if !ok {
						continue
					}
					entry = map[string]string{}
					st, _ := info.Types[vcl].Type.Underlying().(*types.Struct)
					for j, fe := range vcl.Elts {
						if fkv, ok := fe.(*ast.KeyValueExpr); ok {
							if fid, ok := fkv.Key.(*ast.Ident); ok {
								entry[fid.Name] = opConstName(info, fkv.Value)
							}
						} else if st != nil && j < st.NumFields() {
							entry[st.Field(j).Name()] = opConstName(info, fe)
						}
					}
				}
			}
			return true
		})
	}
	if entry == nil {
		return true, true, fmt.Sprintf("the table the fold takes its result from has no entry for %s", op)
	}
	whenEqual, whenDiffer := entry[onTrue], entry[onFalse]
	if cmpOp == token.NEQ {
		whenEqual, whenDiffer = whenDiffer, whenEqual
	}
	wantEq, wantNe := "OpTrue", "OpFalse"
	if want == "!=" {
		wantEq, wantNe = "OpFalse", "OpTrue"
	}
	if whenEqual == wantEq && whenDiffer == wantNe {
		return true, false, fmt.Sprintf("one comparison of the two entries; the table gives %s for equal and %s for different entries, as the VM's %q does", whenEqual, whenDiffer, want)
	}
	return true, true, fmt.Sprintf("the table gives %s for equal and %s for different entries under %s; the VM's %q gives %s and %s", whenEqual, whenDiffer, op, want, wantEq, wantNe)
}

func compareFoldByValue(p *Program, fn *ssa.Function, op, want string) (bool, string) {
	oc := p.Opcodes()
	var opc ssa.Value
	for _, prm := range fn.Params {
		if isOpcodeType(prm.Type()) {
			opc = prm
		}
	}
	if opc == nil {
		return false, ""
	}
	fromEntry := func(v ssa.Value) bool {
		for d := 0; d < 4; d++ {
			switch x := v.(type) {
			case *ssa.Field:
				v = x.X
				continue
			case *ssa.UnOp:
				if fa, ok := x.X.(*ssa.FieldAddr); ok {
					v = fa.X
					continue
				}
				if ia, ok := x.X.(*ssa.IndexAddr); ok {
					_ = ia
					return true
				}
			case *ssa.IndexAddr:
				return true
			case *ssa.Alloc:
				// a local copy of an entry
				n, all := 0, true
				for _, ref := range *x.Referrers() {
					if st, ok := ref.(*ssa.Store); ok && st.Addr == ssa.Value(x) {
						n++
						ld, isLd := st.Val.(*ssa.UnOp)
						if !isLd {
							all = false
						} else if _, isIA := ld.X.(*ssa.IndexAddr); !isIA {
							all = false
						}
					}
				}
				return n > 0 && all
			}
			break
		}
		return false
	}
	var eqs, neqs []*ssa.BinOp
	for _, b := range fn.Blocks {
		for _, ins := range b.Instrs {
			if bo, ok := ins.(*ssa.BinOp); ok && (bo.Op == token.EQL || bo.Op == token.NEQ) && fromEntry(bo.X) && fromEntry(bo.Y) {
				if bo.Op == token.EQL {
					eqs = append(eqs, bo)
				} else {
					neqs = append(neqs, bo)
				}
			}
		}
	}
	if len(eqs)+len(neqs) == 0 {
		return false, ""
	}
	collect := func(ins ssa.Instruction) (string, bool) {
		st, ok := ins.(*ssa.Store)
		if !ok {
			return "", false
		}
		ia, ok := st.Addr.(*ssa.IndexAddr)
		if !ok || !isByteSlice(ia.X.Type()) {
			return "", false
		}
		if name := oc.ssaName(st.Val); name == "OpTrue" || name == "OpFalse" {
			return name, true
		}
		return "", false
	}
	outcome := func(equal bool) pathOutcomes {
		env := map[ssa.Value]constant.Value{opc: constant.MakeInt64(oc.byName[op])}
		for _, bo := range eqs {
			env[bo] = constant.MakeBool(equal)
		}
		for _, bo := range neqs {
			env[bo] = constant.MakeBool(!equal)
		}
		return pathOutcomesWith(p, fn, env, collect)
	}
	wantEq, wantNe := "OpTrue", "OpFalse"
	if want == "!=" {
		wantEq, wantNe = "OpFalse", "OpTrue"
	}
	// paths that write nothing (not enough entries) are not folds
	only := func(po pathOutcomes, w string) bool {
		n := 0
		for k := range po {
			if k == "error" || k == "nothing" {
				continue
			}
			n++
			if k != w {
				return false
			}
		}
		return n > 0
	}
	oe, on := outcome(true), outcome(false)
	if only(oe, wantEq) && only(on, wantNe) {
		return true, fmt.Sprintf("evaluated for %s: equal entries give %s, unequal entries %s — the VM's %s", op, wantEq, wantNe, want)
	}
	return false, ""
}

// restoresRead: the call stores under a name the value that a look-up of the
// same name handed back earlier: it puts a variable back, it does not set it.
func restoresRead(c *ssa.Call) bool {
	if len(c.Call.Args) < 3 {
		return false
	}
	ex, ok := c.Call.Args[2].(*ssa.Extract)
	if !ok || ex.Index != 0 {
		return false
	}
	get, ok := ex.Tuple.(*ssa.Call)
	if !ok || get.Call.StaticCallee() == nil || !recvNamed(get.Call.StaticCallee(), "environment", "Environment") || len(get.Call.Args) < 2 {
		return false
	}
	k1, ok1 := get.Call.Args[1].(*ssa.Const)
	k2, ok2 := c.Call.Args[1].(*ssa.Const)
	return ok1 && ok2 && k1.Value != nil && k2.Value != nil && k1.Value.ExactString() == k2.Value.ExactString()
}

// carriesFlag: the value is the content of one of the flag-bound fields —
// loaded from it directly, or copied into a field of an options struct, or
// handed on as an argument, by every route the value can have come.
func carriesFlag(p *Program, v ssa.Value, fields map[string]bool, depth int, seen map[ssa.Value]bool) bool {
	if v == nil || depth > 8 || seen[v] {
		return false
	}
	seen[v] = true
	switch x := v.(type) {
	case *ssa.UnOp:
		if x.Op != token.MUL {
			return false
		}
		if fields[fieldKey(x.X)] {
			return true
		}
		if fa, ok := x.X.(*ssa.FieldAddr); ok {
			vals, ok := structFieldSources(p, fa.X, fa.Field, true, 0)
			if !ok || len(vals) == 0 {
				return false
			}
			for _, w := range vals {
				if !carriesFlag(p, w, fields, depth+1, seen) {
					return false
				}
			}
			return true
		}
		if al, ok := x.X.(*ssa.Alloc); ok && al.Referrers() != nil {
			n := 0
			for _, ref := range *al.Referrers() {
				if st, ok := ref.(*ssa.Store); ok && st.Addr == ssa.Value(al) {
					n++
					if !carriesFlag(p, st.Val, fields, depth+1, seen) {
						return false
					}
				}
			}
			return n > 0
		}
	case *ssa.Field:
		vals, ok := structFieldSources(p, x.X, x.Field, false, 0)
		if !ok || len(vals) == 0 {
			return false
		}
		for _, w := range vals {
			if !carriesFlag(p, w, fields, depth+1, seen) {
				return false
			}
		}
		return true
	case *ssa.Parameter:
		fn := x.Parent()
		k := -1
		for i, q := range fn.Params {
			if q == x {
				k = i
			}
		}
		sites := staticCallSites(p, fn)
		if k < 0 || len(sites) == 0 {
			return false
		}
		for _, s := range sites {
			args := s.Common().Args
			if k >= len(args) || !carriesFlag(p, args[k], fields, depth+1, seen) {
				return false
			}
		}
		return true
	case *ssa.Phi:
		for _, e := range x.Edges {
			if !carriesFlag(p, e, fields, depth+1, seen) {
				return false
			}
		}
		return len(x.Edges) > 0
	}
	return false
}

// structFieldSources: the values that field k of a struct can hold, the
// struct given as a value (or, with addr, as the address of a variable
// holding it): a composite literal's field stores, a parameter's arguments,
// a call's returned structs.
func structFieldSources(p *Program, sv ssa.Value, k int, addr bool, depth int) ([]ssa.Value, bool) {
	if depth > 6 {
		return nil, false
	}
	var out []ssa.Value
	fromAlloc := func(al *ssa.Alloc) bool {
		if al.Referrers() == nil {
			return false
		}
		for _, ref := range *al.Referrers() {
			switch y := ref.(type) {
			case *ssa.FieldAddr:
				if y.Field != k || y.Referrers() == nil {
					continue
				}
				for _, r2 := range *y.Referrers() {
					if st, ok := r2.(*ssa.Store); ok && st.Addr == ssa.Value(y) {
						out = append(out, st.Val)
					}
				}
			case *ssa.Store:
				if y.Addr == ssa.Value(al) {
					vals, ok := structFieldSources(p, y.Val, k, false, depth+1)
					if !ok {
						return false
					}
					out = append(out, vals...)
				}
			}
		}
		return true
	}
	if addr {
		al, ok := sv.(*ssa.Alloc)
		if !ok {
			return nil, false
		}
		if !fromAlloc(al) {
			return nil, false
		}
		return out, true
	}
	switch x := sv.(type) {
	case *ssa.UnOp:
		if al, ok := x.X.(*ssa.Alloc); ok && x.Op == token.MUL {
			if !fromAlloc(al) {
				return nil, false
			}
			return out, true
		}
	case *ssa.Parameter:
		fn := x.Parent()
		idx := -1
		for i, q := range fn.Params {
			if q == x {
				idx = i
			}
		}
		sites := staticCallSites(p, fn)
		if idx < 0 || len(sites) == 0 {
			return nil, false
		}
		for _, s := range sites {
			args := s.Common().Args
			if idx >= len(args) {
				return nil, false
			}
			vals, ok := structFieldSources(p, args[idx], k, false, depth+1)
			if !ok {
				return nil, false
			}
			out = append(out, vals...)
		}
		return out, true
	case *ssa.Call:
		g := x.Call.StaticCallee()
		if g == nil || len(g.Blocks) == 0 {
			return nil, false
		}
		for _, b := range g.Blocks {
			if ret, ok := terminator(b).(*ssa.Return); ok && len(ret.Results) == 1 {
				vals, ok := structFieldSources(p, ret.Results[0], k, false, depth+1)
				if !ok {
					return nil, false
				}
				out = append(out, vals...)
			}
		}
		return out, true
	case *ssa.Phi:
		for _, e := range x.Edges {
			vals, ok := structFieldSources(p, e, k, false, depth+1)
			if !ok {
				return nil, false
			}
			out = append(out, vals...)
		}
		return out, true
	}
	return nil, false
}

// evalValuesOf: the evaluator(s) a call concerns — arguments (the receiver
// included) of type *Eval, and a result of that type.
func evalValuesOf(ins ssa.Instruction, cc *ssa.CallCommon) []ssa.Value {
	isEval := func(t types.Type) bool { return isNamed(t, "", "Eval") && isPointer(t) }
	var out []ssa.Value
	for _, a := range cc.Args {
		if isEval(a.Type()) {
			out = append(out, a)
		}
	}
	if v, ok := ins.(ssa.Value); ok {
		if isEval(v.Type()) {
			out = append(out, v)
		}
		if _, isTuple := v.Type().(*types.Tuple); isTuple && v.Referrers() != nil {
			for _, ref := range *v.Referrers() {
				if ex, ok := ref.(*ssa.Extract); ok && isEval(ex.Type()) {
					out = append(out, ex)
				}
			}
		}
	}
	return out
}

// sameOrigin: the two values can be the same object (they share an origin).
func sameOrigin(a, b ssa.Value) bool {
	if a == b {
		return true
	}
	oa, ob := origins(a), origins(b)
	for _, x := range oa {
		for _, y := range ob {
			if x == y {
				return true
			}
		}
	}
	return false
}
