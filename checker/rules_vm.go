package main

// Run-time state rules: run-entry reset, lookup order, frame and scope
// restoration, innermost binding, value immutability, state census.

import (
	"fmt"
	"go/ast"
	"go/token"
	"go/types"
	"sort"
	"strings"

	"golang.org/x/tools/go/ssa"
)

func init() {
	register(&Rule{ID: "R-RUNRESET", Floor: 2, Run: ruleRunReset,
		Text: "At the entry of the interpreter — for a run and for every nested function call — the field cache is replaced by an empty map and the value stack is emptied before the first instruction is dispatched."})
	register(&Rule{ID: "R-LOOKUPORDER", Floor: 3, Run: ruleLookupOrder,
		Text: "A name is resolved as a script variable first, then as a field of the object of this run, and otherwise yields the null object."})
	register(&Rule{ID: "R-FRAMERESTORE", Floor: 2, Run: ruleFrameRestore,
		Text: "Every VM field the interpreter overwrites for a function call (bytecode, stack) is put back by a deferred store of the value it had before the swap, registered before the interpreter is re-entered — so the machine is intact after an error or a panic inside the function."})
	register(&Rule{ID: "R-SCOPERESTORE", Floor: 3, Run: ruleScopeRestore,
		Text: "Scopes are restored by absolute depth: a call re-enters the interpreter under a deferred truncation to the depth read before the callee's scope was opened, and Execute truncates to zero in a deferred call."})
	register(&Rule{ID: "R-SCOPEPAIR", Floor: 3, Run: ruleScopePair,
		Text: "The call handler opens the callee's scope before binding parameters and re-entering the interpreter; the iterator-reset handler opens a scope and the exhaustion branch of the iterator-step handler closes one."})
	register(&Rule{ID: "R-BINDINNER", Floor: 3, Run: ruleBindInner,
		Text: "Parameters, loop variables and `local` declarations are bound in the innermost scope (the map at index len-1), never in a scope found by searching outwards."})
	register(&Rule{ID: "R-NOMUT", Floor: 4, Run: ruleNoMut,
		Text: "Values are immutable once built: a receiver-mutating method of an object type (Increase, Decrease, Reset, Next) is only invoked on a private copy made by a copier that covers every library type with that method, and no other library code stores into a field of a value object."})
	register(&Rule{ID: "R-STATECENSUS", Floor: 8, Run: ruleStateCensus,
		Text: "Every struct field, map and package variable written by code reachable from the interpreter belongs to a classified group: persistent by design, reset at run entry, restored on every exit, private copy, or guarded idempotent cache.  An unclassified group is state that can survive a run."})
}

// ---------------------------------------------------------------------------
// helpers on the interpreter

// dispatchPoint: the instruction of Run that reads the opcode (conversion of a
// bytecode element to code.Opcode).
func dispatchPoint(run *ssa.Function) ssa.Instruction {
	if dp := rawDispatchPoint(run); dp != nil {
		return dp
	}
	// the instruction is decoded by a function of its own: the call of it
	for _, b := range run.Blocks {
		for _, ins := range b.Instrs {
			if c, ok := ins.(*ssa.Call); ok {
				if _, ok := decoderOf(c.Call.StaticCallee()); ok {
					return ins
				}
			}
		}
	}
	return nil
}

// decoder: a function that reads one instruction of a program: the position
// of the opcode, the instruction's length and its operand among its results,
// and of the position at which it reads among its parameters.
type decoder struct {
	opIdx, lenIdx, argIdx int // result indices (-1: not returned)
	ipIdx                 int // parameter index of the position
}

var decoderCache = map[*ssa.Function]*decoder{}

func decoderOf(g *ssa.Function) (*decoder, bool) {
	if g == nil || len(g.Blocks) == 0 {
		return nil, false
	}
	if d, ok := decoderCache[g]; ok {
		return d, d != nil
	}
	decoderCache[g] = nil
	dp := rawDispatchPoint(g)
	rs := g.Signature.Results()
	if dp == nil || rs.Len() < 2 {
		return nil, false
	}
	d := &decoder{opIdx: -1, lenIdx: -1, argIdx: -1, ipIdx: -1}
	// the position: the parameter that indexes the program where the opcode is read
	var conv ssa.Value
	switch c := dp.(type) {
	case *ssa.Convert:
		conv = c.X
	case *ssa.ChangeType:
		conv = c.X
	}
	if ld, ok := conv.(*ssa.UnOp); ok {
		if ia, ok := ld.X.(*ssa.IndexAddr); ok {
			for i, prm := range g.Params {
				if ia.Index == ssa.Value(prm) {
					d.ipIdx = i
				}
			}
		}
	}
	var ret *ssa.Return
	for _, b := range g.Blocks {
		if rt, ok := terminator(b).(*ssa.Return); ok {
			if ret != nil {
				return nil, false
			}
			ret = rt
		}
	}
	if ret == nil || len(ret.Results) != rs.Len() {
		return nil, false
	}
	for i := range ret.Results {
		v := returnOperand(ret, i)
		switch {
		case isOpcodeType(rs.At(i).Type()) && v == dp.(ssa.Value):
			d.opIdx = i
		case isInt(rs.At(i).Type()):
			fromU16, fromLen := false, false
			for _, o := range origins(v) {
				if c, ok := o.(*ssa.Call); ok {
					if cal := c.Call.StaticCallee(); cal != nil && cal.Name() == "Uint16" || c.Call.IsInvoke() && c.Call.Method.Name() == "Uint16" {
						fromU16 = true
					} else if cal != nil && cal.Pkg != nil && cal.Pkg.Pkg.Path() == Mod+"/code" {
						fromLen = true
					}
				}
			}
			if fromU16 {
				d.argIdx = i
			} else if fromLen {
				d.lenIdx = i
			}
		}
	}
	if d.opIdx < 0 || d.argIdx < 0 || d.ipIdx < 0 {
		return nil, false
	}
	decoderCache[g] = d
	return d, true
}

func rawDispatchPoint(run *ssa.Function) ssa.Instruction {
	for _, b := range run.Blocks {
		for _, ins := range b.Instrs {
			var x ssa.Value
			switch c := ins.(type) {
			case *ssa.Convert:
				if isOpcodeType(c.Type()) {
					x = c.X
				}
			case *ssa.ChangeType:
				if isOpcodeType(c.Type()) {
					x = c.X
				}
			}
			if x == nil {
				continue
			}
			if ld, ok := x.(*ssa.UnOp); ok && ld.Op == token.MUL {
				if _, ok := ld.X.(*ssa.IndexAddr); ok {
					return ins
				}
			}
		}
	}
	return nil
}

func methodOf(p *Program, pkg, recv, name string) *ssa.Function {
	return p.Fn(pkg + ".(*" + recv + ")." + name)
}

// callsTo lists the call instructions (incl. defer) in fn whose static callee is target.
func callsTo(fn, target *ssa.Function) []ssa.CallInstruction {
	var out []ssa.CallInstruction
	if target == nil {
		return nil
	}
	for _, b := range fn.Blocks {
		for _, ins := range b.Instrs {
			if ci, ok := ins.(ssa.CallInstruction); ok && ci.Common().StaticCallee() == target {
				out = append(out, ci)
			}
		}
	}
	return out
}

// envMethods resolves the scope primitives of package environment by role.
type envRoles struct {
	addScope    *ssa.Function // appends a fresh map to the scope stack
	removeScope *ssa.Function // drops the last scope
	depth       *ssa.Function // () int: len(scope stack)
	truncate    *ssa.Function // (int): scope stack = scope stack[:n]
	scopeField  string
}

func resolveEnvRoles(p *Program) *envRoles {
	er := &envRoles{}
	for _, fn := range p.LibFns {
		if fn.Parent() != nil || !recvNamed(fn, "environment", "Environment") {
			continue
		}
		ps, rs := sigParams(fn), sigResults(fn)
		for _, b := range fn.Blocks {
			for _, ins := range b.Instrs {
				switch x := ins.(type) {
				case *ssa.Store:
					k := fieldKey(x.Addr)
					n, f, ok := fieldOf(x.Addr)
					if !ok || n == nil || n.Obj().Name() != "Environment" {
						continue
					}
					// scope stack: slice of maps
					if st, ok := deref(n.Underlying().(*types.Struct).Field(fieldIndex(n, f)).Type()).Underlying().(*types.Slice); ok {
						if _, isMap := st.Elem().Underlying().(*types.Map); isMap {
							er.scopeField = k
							if _, isApp := isBuiltinCall(x.Val, "append"); isApp && len(ps) == 0 {
								er.addScope = fn
							}
							if sl, isSl := x.Val.(*ssa.Slice); isSl {
								if len(ps) == 1 && isInt(ps[0]) {
									if sl.High == fn.Params[1] {
										er.truncate = fn
									}
								} else if len(ps) == 0 {
									er.removeScope = fn
								}
							}
						}
					}
				case *ssa.Return:
					if len(ps) == 0 && len(rs) == 1 && isInt(rs[0]) && len(x.Results) == 1 {
						if c, ok := isBuiltinCall(x.Results[0], "len"); ok {
							if u, ok := c.Call.Args[0].(*ssa.UnOp); ok && u.Op == token.MUL {
								if n, f, ok := fieldOf(u.X); ok && n != nil && n.Obj().Name() == "Environment" {
									if st, ok := n.Underlying().(*types.Struct).Field(fieldIndex(n, f)).Type().Underlying().(*types.Slice); ok {
										if _, isMap := st.Elem().Underlying().(*types.Map); isMap {
											er.depth = fn
										}
									}
								}
							}
						}
					}
				}
			}
		}
	}
	return er
}

func fieldIndex(n *types.Named, name string) int {
	st := n.Underlying().(*types.Struct)
	for i := 0; i < st.NumFields(); i++ {
		if st.Field(i).Name() == name {
			return i
		}
	}
	return 0
}

// runReentries: calls of the interpreter from inside package vm.
type reentry struct {
	fn   *ssa.Function // function containing the call
	call ssa.CallInstruction
}

func runReentries(p *Program, run *ssa.Function) []reentry {
	var out []reentry
	// the interpreter is entered through its entry or directly at its loop; the
	// entry handing over to the loop is not a re-entry
	targets := []*ssa.Function{run}
	var entry, loop *ssa.Function
	if a, _ := p.Anchors(); a != nil {
		entry, loop = a.vmEntry, a.vmRun
		for _, t := range []*ssa.Function{entry, loop} {
			if t != nil && t != run {
				targets = append(targets, t)
			}
		}
	}
	for _, fn := range p.LibFns {
		if fnPkg(fn).Pkg.Path() != Mod+"/vm" {
			continue
		}
		for _, t := range targets {
			if fn == entry && t == loop && entry != loop {
				continue
			}
			for _, c := range callsTo(fn, t) {
				out = append(out, reentry{fn, c})
			}
		}
	}
	return out
}

// deferredBodies: closures deferred in fn by Defer instructions that dominate `at`.
func deferredBodies(fn *ssa.Function, at ssa.Instruction) []*ssa.Function {
	var out []*ssa.Function
	for _, b := range fn.Blocks {
		for _, ins := range b.Instrs {
			d, ok := ins.(*ssa.Defer)
			if !ok || !dominatesInstr(d, at) {
				continue
			}
			if mc, ok := d.Call.Value.(*ssa.MakeClosure); ok {
				if f, ok := mc.Fn.(*ssa.Function); ok {
					out = append(out, f)
				}
			} else if f := d.Call.StaticCallee(); f != nil {
				out = append(out, f)
			}
		}
	}
	return out
}

// outerOrigins: like origins, but loads of captured variables are traced to
// the captured variable, and type assertions are transparent.
func outerOrigins(v ssa.Value) []ssa.Value {
	var out []ssa.Value
	seen := map[ssa.Value]bool{}
	var walk func(v ssa.Value)
	walk = func(v ssa.Value) {
		if v == nil || seen[v] {
			return
		}
		seen[v] = true
		for _, o := range origins(v) {
			switch x := o.(type) {
			case *ssa.UnOp:
				if x.Op == token.MUL {
					if fv, ok := x.X.(*ssa.FreeVar); ok {
						out = append(out, fv)
						continue
					}
				}
				out = append(out, o)
			case *ssa.TypeAssert:
				walk(x.X)
			case *ssa.Extract:
				if ta, ok := x.Tuple.(*ssa.TypeAssert); ok {
					walk(ta.X)
				} else {
					out = append(out, o)
				}
			case *ssa.MakeInterface:
				walk(x.X)
			case *ssa.ChangeInterface:
				walk(x.X)
			default:
				out = append(out, o)
			}
		}
	}
	walk(v)
	return out
}

// ---------------------------------------------------------------------------
// R-RUNRESET

func ruleRunReset(p *Program, r *Reporter) {
	a := needAnchors(p, r)
	if a == nil {
		return
	}
	dp := dispatchPoint(a.vmRun)
	if dp == nil {
		r.Undecided("dispatch point", p.Pos(a.vmRun.Pos()), "cannot find where the interpreter reads the opcode")
		return
	}
	cacheReset, stackReset := false, false
	clear := p.Fn("stack.(*Stack).Clear")
	// the resets come before the dispatch: in the loop's own function, or — when
	// the loop has been moved into a function of its own — in the entry, before
	// it hands over to the loop
	type scan struct {
		fn *ssa.Function
		at ssa.Instruction
	}
	scans := []scan{{a.vmRun, dp}}
	if a.vmEntry != a.vmRun {
		for _, c := range callsTo(a.vmEntry, a.vmRun) {
			scans = append(scans, scan{a.vmEntry, c.(ssa.Instruction)})
		}
	}
	// the resets grouped in a method of the machine that the entry calls before
	// the dispatch (`vm.resetForRun()`): what it does on all its paths counts
	// at the call
	var resetsIn func(h *ssa.Function, depth int) (cache, stack bool)
	resetsIn = func(h *ssa.Function, depth int) (cache, stack bool) {
		if h == nil || depth > 2 || len(h.Blocks) == 0 || !recvNamed(h, "vm", "VM") {
			return false, false
		}
		onAll := func(ins ssa.Instruction) bool {
			for _, hb := range h.Blocks {
				if _, ok := terminator(hb).(*ssa.Return); ok {
					if !(ins.Block() == hb || ins.Block().Dominates(hb)) {
						return false
					}
				}
			}
			return true
		}
		for _, hb := range h.Blocks {
			for _, hi := range hb.Instrs {
				switch x := hi.(type) {
				case *ssa.Store:
					if fieldKey(x.Addr) == "vm.VM.fields" {
						if _, ok := x.Val.(*ssa.MakeMap); ok && onAll(x) {
							cache = true
						}
					}
					if fieldKey(x.Addr) == "vm.VM.stack" && onAll(x) {
						if c, ok := x.Val.(*ssa.Call); ok && c.Call.StaticCallee() != nil && c.Call.StaticCallee().Name() == "New" {
							stack = true
						}
					}
				case *ssa.Call:
					if clear != nil && x.Call.StaticCallee() == clear && onAll(x) {
						if u, ok := x.Call.Args[0].(*ssa.UnOp); ok && fieldKey(u.X) == "vm.VM.stack" {
							stack = true
						}
					}
					if cal := x.Call.StaticCallee(); cal != nil && cal != h && onAll(x) {
						c2, s2 := resetsIn(cal, depth+1)
						cache, stack = cache || c2, stack || s2
					}
				}
			}
		}
		return
	}
	for _, sc := range scans {
		dp := sc.at
		for _, b := range sc.fn.Blocks {
			for _, ins := range b.Instrs {
				if c, ok := ins.(*ssa.Call); ok && c.Call.StaticCallee() != nil && c.Call.StaticCallee() != clear && dominatesInstr(c, dp) && len(c.Call.Args) > 0 && c.Call.Args[0] == ssa.Value(sc.fn.Params[0]) {
					c2, s2 := resetsIn(c.Call.StaticCallee(), 0)
					cacheReset, stackReset = cacheReset || c2, stackReset || s2
				}
				switch x := ins.(type) {
				case *ssa.Store:
					if fieldKey(x.Addr) == "vm.VM.fields" {
						if _, ok := x.Val.(*ssa.MakeMap); ok && dominatesInstr(x, dp) {
							cacheReset = true
						}
					}
					if fieldKey(x.Addr) == "vm.VM.stack" && dominatesInstr(x, dp) {
						// a fresh stack also counts
						if c, ok := x.Val.(*ssa.Call); ok && c.Call.StaticCallee() != nil && c.Call.StaticCallee().Name() == "New" {
							stackReset = true
						}
					}
				case *ssa.Call:
					if clear != nil && x.Call.StaticCallee() == clear && dominatesInstr(x, dp) {
						if u, ok := x.Call.Args[0].(*ssa.UnOp); ok && fieldKey(u.X) == "vm.VM.stack" {
							stackReset = true
						}
					}
				}
			}
		}
	}
	r.Check(cacheReset, "field cache emptied at interpreter entry", p.Pos(a.vmRun.Pos()), "store of a fresh map to VM.fields dominates the dispatch", "the interpreter does not replace the field cache by an empty map before dispatching: a run (or nested call) would see the fields of an object passed to an earlier run")
	r.Check(stackReset, "value stack emptied at interpreter entry", p.Pos(a.vmRun.Pos()), "Stack.Clear on VM.stack dominates the dispatch", "the interpreter does not empty the value stack before dispatching: values left by an earlier run (unused results of host functions) accumulate and can be popped by the next run")
}

// ---------------------------------------------------------------------------
// R-LOOKUPORDER

func ruleLookupOrder(p *Program, r *Reporter) {
	var look *ssa.Function
	for _, fn := range p.LibFns {
		if fn.Parent() != nil || !recvNamed(fn, "vm", "VM") {
			continue
		}
		ps, rs := sigParams(fn), sigResults(fn)
		if len(ps) == 2 && len(rs) == 1 && isObjectIface(rs[0]) {
			if _, ok := ps[0].Underlying().(*types.Interface); ok {
				if b, ok := ps[1].Underlying().(*types.Basic); ok && b.Kind() == types.String {
					look = fn
				}
			}
		}
	}
	if look == nil {
		r.Undecided("name resolution function", "-", "no VM method with signature (interface{}, string) object.Object")
		return
	}
	envGet := methodOf(p, "environment", "Environment", "Get")
	var getCall *ssa.Call
	for _, c := range callsTo(look, envGet) {
		getCall, _ = c.(*ssa.Call)
	}
	var fieldsLookup *ssa.Lookup
	for _, b := range look.Blocks {
		for _, ins := range b.Instrs {
			if lk, ok := ins.(*ssa.Lookup); ok {
				if u, ok := lk.X.(*ssa.UnOp); ok && fieldKey(u.X) == "vm.VM.fields" {
					fieldsLookup = lk
				}
			}
		}
	}
	if getCall == nil || fieldsLookup == nil {
		r.Undecided("lookup shape", p.Pos(look.Pos()), "cannot find the variable-store Get call and the field-cache lookup in the resolver")
		return
	}
	r.Check(dominatesInstr(getCall, fieldsLookup), "variables are consulted before fields", p.Pos(getCall.Pos()), "Environment.Get dominates the field-cache lookup", "the field cache is consulted before (or without) the variable store: a script variable no longer takes precedence over a field of the same name")
	// the variable's value is returned on the ok edge
	varReturned := false
	fallNull := true
	for _, b := range look.Blocks {
		ret, ok := terminator(b).(*ssa.Return)
		if !ok {
			continue
		}
		v := ret.Results[0]
		fromGet, fromFields, isNull := false, false, false
		for _, o := range outerOrigins(v) {
			switch x := o.(type) {
			case *ssa.Extract:
				if x.Tuple == ssa.Value(getCall) {
					fromGet = true
				}
				if x.Tuple == ssa.Value(fieldsLookup) {
					fromFields = true
				}
			case *ssa.UnOp:
				if g, ok := x.X.(*ssa.Global); ok && objectStructName(deref(g.Type())) == "Null" {
					isNull = true
				}
			case *ssa.Alloc:
				if objectStructName(x.Type()) == "Null" {
					isNull = true
				}
			}
		}
		if fromGet {
			varReturned = true
		}
		if !fromGet && !fromFields && !isNull {
			fallNull = false
		}
	}
	r.Check(varReturned, "a found variable is what the name yields", p.Pos(look.Pos()), "the resolver returns Environment.Get's value", "the value found in the variable store is never returned by the resolver")
	// … whatever it holds: once the store says the variable exists, no path
	// leads on to the field cache (a variable that is null, zero or false still
	// hides the field of the same name)
	{
		var okVal ssa.Value
		for _, ref := range liveRefs(getCall) {
			if ex, ok := ref.(*ssa.Extract); ok && ex.Index == 1 {
				okVal = ex
			}
		}
		decided, leak := false, token.NoPos
		for _, b := range look.Blocks {
			iff, ok := terminator(b).(*ssa.If)
			if !ok || okVal == nil {
				continue
			}
			cond, neg := iff.Cond, false
			if u, ok := cond.(*ssa.UnOp); ok && u.Op == token.NOT {
				cond, neg = u.X, true
			}
			if cond != okVal {
				continue
			}
			decided = true
			from := b.Succs[0]
			if neg {
				from = b.Succs[1]
			}
			seen := map[*ssa.BasicBlock]bool{}
			var walk func(x *ssa.BasicBlock)
			walk = func(x *ssa.BasicBlock) {
				if seen[x] {
					return
				}
				seen[x] = true
				if x == fieldsLookup.Block() {
					leak = fieldsLookup.Pos()
					return
				}
				for _, sc := range x.Succs {
					walk(sc)
				}
			}
			walk(from)
		}
		if decided {
			r.Check(!leak.IsValid(), "a variable that exists hides the field whatever it holds", p.Pos(getCall.Pos()), "from the branch on which the variable store has the name no path reaches the field cache", "after the variable store has said that the variable exists there is still a path to the field cache: a variable that holds null (a parameter handed null, a loop variable over a list with a nil member) no longer takes precedence, and the script reads the host's field of the same name instead")
		}
	}
	r.Check(fallNull, "an unknown name yields null", p.Pos(look.Pos()), "every other return is the cached field or the null object", "the resolver can return something other than the variable, the cached field or null")
}

// ---------------------------------------------------------------------------
// R-FRAMERESTORE

// swapSet: VM fields stored by the interpreter after its entry (stores that do
// not dominate the dispatch point).
func swapSet(p *Program, run *ssa.Function) map[string]*ssa.Store {
	dp := dispatchPoint(run)
	out := map[string]*ssa.Store{}
	for _, b := range run.Blocks {
		for _, ins := range b.Instrs {
			st, ok := ins.(*ssa.Store)
			if !ok {
				continue
			}
			n, f, ok := fieldOf(st.Addr)
			if !ok || n == nil || n.Obj().Name() != "VM" {
				continue
			}
			if dp != nil && dominatesInstr(st, dp) {
				continue
			}
			out[f] = st
		}
	}
	// the parts of handlers kept in functions of their own
	if a, _ := p.Anchors(); a != nil && a.vmRun == run {
		for _, h := range handlerFns(p, a) {
			for _, b := range h.Blocks {
				for _, ins := range b.Instrs {
					st, ok := ins.(*ssa.Store)
					if !ok {
						continue
					}
					if n, f, ok := fieldOf(st.Addr); ok && n != nil && n.Obj().Name() == "VM" && !counterLike(st) {
						if _, have := out[f]; !have {
							out[f] = st
						}
					}
				}
			}
		}
	}
	return out
}

func ruleFrameRestore(p *Program, r *Reporter) {
	a := needAnchors(p, r)
	if a == nil {
		return
	}
	ss := swapSet(p, a.vmRun)
	res := runReentries(p, a.vmEntry)
	// a function that re-enters the interpreter may do the swap itself: the
	// VM fields it stores before the re-entry count too
	for _, re := range res {
		if re.fn == a.vmRun {
			continue
		}
		for _, b := range re.fn.Blocks {
			for _, ins := range b.Instrs {
				st, ok := ins.(*ssa.Store)
				if !ok || !dominatesInstr(st, re.call.(ssa.Instruction)) {
					continue
				}
				if n, f, ok := fieldOf(st.Addr); ok && n != nil && n.Obj().Name() == "VM" && !counterLike(st) {
					ss[f] = st
				}
			}
		}
	}
	var fields []string
	for f := range ss {
		fields = append(fields, f)
	}
	sort.Strings(fields)
	if len(fields) == 0 {
		r.OkNT("no VM field is swapped for a call", p.Pos(a.vmRun.Pos()), "nothing to restore")
		return
	}
	if len(res) == 0 {
		r.Undecided("interpreter re-entry", p.Pos(a.vmRun.Pos()), "VM fields "+strings.Join(fields, ", ")+" are overwritten after entry but no call re-enters the interpreter: unrecognised call mechanism")
		return
	}
	for _, re := range res {
		for _, f := range fields {
			key := fmt.Sprintf("%s re-enters the interpreter: VM.%s restored by defer", p.FnName(re.fn), f)
			if re.fn == a.vmRun {
				// direct recursion from the dispatch loop: a defer here would only
				// run when the outer interpreter returns
				restoredAfter := false
				walkForward(re.call, func(ins ssa.Instruction) bool {
					if st, ok := ins.(*ssa.Store); ok {
						if n, ff, ok := fieldOf(st.Addr); ok && n != nil && n.Obj().Name() == "VM" && ff == f {
							restoredAfter = true
						}
					}
					return false
				})
				detail := "the interpreter calls itself for a function body and restores VM." + f + " only on the path where that call returns normally"
				if !restoredAfter {
					detail = "the interpreter calls itself for a function body and never restores VM." + f
				}
				r.Fail(key, p.Pos(re.call.Pos()), detail+": after an error (wrong argument count, run-time error) or a panic inside the function the machine keeps the callee's "+f+", and the next run executes the function body as the main program")
				continue
			}
			// deferred closure storing a pre-swap value
			ok := false
			paramIdx := -1
			for _, body := range deferredBodies(re.fn, re.call) {
				for _, b := range body.Blocks {
					for _, ins := range b.Instrs {
						st, isSt := ins.(*ssa.Store)
						if !isSt {
							continue
						}
						n, ff, isF := fieldOf(st.Addr)
						if !isF || n == nil || n.Obj().Name() != "VM" || ff != f {
							continue
						}
						for _, o := range outerOrigins(st.Val) {
							if fv, isFV := o.(*ssa.FreeVar); isFV {
								// which variable of re.fn is captured?
								if pi := capturedParam(re.fn, body, fv); pi >= 0 {
									paramIdx = pi
									ok = true
								} else if savedBeforeSwap(re.fn, body, fv, f) {
									// a local of re.fn that holds what the field held
									// before re.fn itself overwrote it
									ok = true
								}
							}
							if _, isP := o.(*ssa.Parameter); isP {
								ok = true
							}
						}
					}
				}
			}
			if !ok {
				// the saved value may travel in another form (a field of a struct
				// that is handed to a named clean-up function, say): follow it to
				// where it was read
				for _, body := range withCallees(p, deferredBodies(re.fn, re.call)) {
					for _, b := range body.Blocks {
						for _, ins := range b.Instrs {
							st, isSt := ins.(*ssa.Store)
							if !isSt {
								continue
							}
							n, ff, isF := fieldOf(st.Addr)
							if !isF || n == nil || n.Obj().Name() != "VM" || ff != f {
								continue
							}
							origins := traceSaved(p, body, st.Val, 0)
							all := len(origins) > 0
							for _, o := range origins {
								if !readOfFieldBeforeStore(o, "VM", f) {
									all = false
								}
							}
							if all {
								ok = true
							}
						}
					}
				}
			}
			if !ok {
				r.Fail(key, p.Pos(re.call.Pos()), "no deferred function registered before the interpreter is re-entered stores a saved value back into VM."+f+": after an error or a panic inside the called function the machine keeps the callee's "+f)
				continue
			}
			// the saved value must have been read before the swap, at every caller
			good, why := true, ""
			if paramIdx >= 0 {
				for _, caller := range p.LibFns {
					for _, c := range callsTo(caller, re.fn) {
						arg := c.Common().Args[paramIdx]
						ld, isLd := arg.(*ssa.UnOp)
						if !isLd || ld.Op != token.MUL {
							good, why = false, "the value passed for restoration at "+p.Pos(c.Pos())+" is not a read of VM."+f
							continue
						}
						if n, ff, isF := fieldOf(ld.X); !isF || n == nil || n.Obj().Name() != "VM" || ff != f {
							good, why = false, "the value passed for restoration at "+p.Pos(c.Pos())+" is not a read of VM."+f
							continue
						}
						for _, b := range caller.Blocks {
							for _, ins := range b.Instrs {
								if st, isSt := ins.(*ssa.Store); isSt {
									if n, ff, isF := fieldOf(st.Addr); isF && n != nil && n.Obj().Name() == "VM" && ff == f && dominatesInstr(st, c) && !dominatesInstr(ld, st) {
										good, why = false, "VM."+f+" is read for restoration ("+p.Pos(ld.Pos())+") after it was already overwritten ("+p.Pos(st.Pos())+")"
									}
								}
							}
						}
					}
				}
			}
			if good {
				r.OkNT(key, p.Pos(re.call.Pos()), "deferred store of the value read before the swap")
			} else {
				r.Fail(key, p.Pos(re.call.Pos()), why)
			}
		}
	}
}

// counterLike: the store writes the field's own value plus or minus a constant
// (a counter of calls in progress is not a swapped frame).
func counterLike(st *ssa.Store) bool {
	bo, ok := st.Val.(*ssa.BinOp)
	if !ok || (bo.Op != token.ADD && bo.Op != token.SUB) {
		return false
	}
	ld, ok := bo.X.(*ssa.UnOp)
	if !ok || ld.Op != token.MUL {
		return false
	}
	fa1, ok1 := ld.X.(*ssa.FieldAddr)
	fa2, ok2 := st.Addr.(*ssa.FieldAddr)
	_, isC := bo.Y.(*ssa.Const)
	return ok1 && ok2 && isC && fa1.X == fa2.X && fa1.Field == fa2.Field
}

// savedBeforeSwap: the closure's free variable fv is a local of fn whose only
// value is a read of VM.<field> made before any store to that field in fn.
func savedBeforeSwap(fn, closure *ssa.Function, fv *ssa.FreeVar, field string) bool {
	idx := -1
	for i, f := range closure.FreeVars {
		if f == fv {
			idx = i
		}
	}
	if idx < 0 {
		return false
	}
	for _, b := range fn.Blocks {
		for _, ins := range b.Instrs {
			mc, ok := ins.(*ssa.MakeClosure)
			if !ok || mc.Fn != closure || idx >= len(mc.Bindings) {
				continue
			}
			al, ok := mc.Bindings[idx].(*ssa.Alloc)
			if !ok {
				return false
			}
			n := 0
			for _, ref := range *al.Referrers() {
				st, ok := ref.(*ssa.Store)
				if !ok || st.Addr != ssa.Value(al) {
					continue
				}
				n++
				ld, ok := st.Val.(*ssa.UnOp)
				if !ok || ld.Op != token.MUL {
					return false
				}
				if nm, ff, ok := fieldOf(ld.X); !ok || nm == nil || nm.Obj().Name() != "VM" || ff != field {
					return false
				}
				// no store to the field before the read
				for _, b2 := range fn.Blocks {
					for _, i2 := range b2.Instrs {
						if s2, ok := i2.(*ssa.Store); ok {
							if nm, ff, ok := fieldOf(s2.Addr); ok && nm != nil && nm.Obj().Name() == "VM" && ff == field && dominatesInstr(s2, ld) {
								return false
							}
						}
					}
				}
			}
			return n == 1
		}
	}
	return false
}

// capturedParam: index (in fn.Params) of the parameter that the closure's free
// variable fv captures; -1 if it is not a parameter.
func capturedParam(fn, closure *ssa.Function, fv *ssa.FreeVar) int {
	idx := -1
	for i, f := range closure.FreeVars {
		if f == fv {
			idx = i
		}
	}
	if idx < 0 {
		return -1
	}
	for _, b := range fn.Blocks {
		for _, ins := range b.Instrs {
			mc, ok := ins.(*ssa.MakeClosure)
			if !ok || mc.Fn != closure || idx >= len(mc.Bindings) {
				continue
			}
			bind := mc.Bindings[idx]
			// captured by reference: an Alloc initialised from the parameter
			if al, ok := bind.(*ssa.Alloc); ok {
				for _, ref := range *al.Referrers() {
					if st, ok := ref.(*ssa.Store); ok && st.Addr == al {
						for i, prm := range fn.Params {
							if st.Val == prm {
								return i
							}
						}
					}
				}
			}
			for i, prm := range fn.Params {
				if bind == prm {
					return i
				}
			}
		}
	}
	return -1
}

// readOfFieldBeforeStore: the origin is a read of <owner>.<field> that no store
// to that field in its function comes before.
func readOfFieldBeforeStore(o savedValue, owner, field string) bool {
	ld, ok := o.v.(*ssa.UnOp)
	if !ok || ld.Op != token.MUL {
		return false
	}
	if nm, ff, ok := fieldOf(ld.X); !ok || nm == nil || nm.Obj().Name() != owner || ff != field {
		return false
	}
	for _, b := range o.fn.Blocks {
		for _, ins := range b.Instrs {
			if st, ok := ins.(*ssa.Store); ok {
				if nm, ff, ok := fieldOf(st.Addr); ok && nm != nil && nm.Obj().Name() == owner && ff == field && dominatesInstr(st, ld) {
					return false
				}
			}
		}
	}
	return true
}

// depthReadBeforeOpen: the closure's free variable is a local of fn whose only
// value is a reading of the scope depth made before fn opens any scope.
func depthReadBeforeOpen(p *Program, er *envRoles, fn, closure *ssa.Function, fv *ssa.FreeVar) (bool, string) {
	idx := -1
	for i, f := range closure.FreeVars {
		if f == fv {
			idx = i
		}
	}
	if idx < 0 {
		return false, ""
	}
	for _, b := range fn.Blocks {
		for _, ins := range b.Instrs {
			mc, ok := ins.(*ssa.MakeClosure)
			if !ok || mc.Fn != closure || idx >= len(mc.Bindings) {
				continue
			}
			al, ok := mc.Bindings[idx].(*ssa.Alloc)
			if !ok {
				return false, ""
			}
			n := 0
			for _, ref := range *al.Referrers() {
				st, ok := ref.(*ssa.Store)
				if !ok || st.Addr != ssa.Value(al) {
					continue
				}
				n++
				dc, ok := st.Val.(*ssa.Call)
				if !ok || dc.Call.StaticCallee() != er.depth {
					return false, "the depth restored is not a reading of the scope depth"
				}
				for _, opener := range scopeOpeners(p, er) {
					for _, open := range callsTo(fn, opener) {
						if !dominatesInstr(dc, open.(ssa.Instruction)) {
							return false, "the scope depth is read (" + p.Pos(dc.Pos()) + ") after the callee's scope was opened (" + p.Pos(open.Pos()) + "): that scope survives the call"
						}
					}
				}
			}
			return n == 1, ""
		}
	}
	return false, ""
}

// ---------------------------------------------------------------------------
// R-SCOPERESTORE / R-SCOPEPAIR / R-BINDINNER

func ruleScopeRestore(p *Program, r *Reporter) {
	a := needAnchors(p, r)
	if a == nil {
		return
	}
	er := resolveEnvRoles(p)
	if er.addScope == nil {
		r.Undecided("scope primitives", "-", "cannot find the method that opens a scope")
		return
	}
	if er.depth == nil || er.truncate == nil {
		r.Fail("scope stack offers depth and truncation", "-", "the environment offers no way to read the scope depth and truncate to it: scopes left open by an early return out of a loop (or by a failed call) cannot be closed, and the single scope removed after a call is then the wrong one")
		return
	}
	r.OkNT("scope stack offers depth and truncation", p.Pos(er.truncate.Pos()), er.depth.Name()+" / "+er.truncate.Name())

	// (2) every re-entry is under a deferred truncation to a depth read before
	// the callee's scope was opened
	for _, re := range runReentries(p, a.vmEntry) {
		key := p.FnName(re.fn) + " re-enters the interpreter: scopes restored by depth"
		if re.fn == a.vmRun {
			r.Fail(key, p.Pos(re.call.Pos()), "the interpreter calls itself for a function body with no deferred scope restoration")
			continue
		}
		paramIdx, found := -1, false
		localOK, localWhy := false, ""
		for _, body := range withCallees(p, deferredBodies(re.fn, re.call)) {
			for _, c := range callsTo(body, er.truncate) {
				found = true
				for _, o := range outerOrigins(c.Common().Args[1]) {
					if fv, ok := o.(*ssa.FreeVar); ok {
						paramIdx = capturedParam(re.fn, body, fv)
						if paramIdx < 0 {
							// a local of the re-entering function: the depth it read
							// itself, before it opened the callee's scope
							localOK, localWhy = depthReadBeforeOpen(p, er, re.fn, body, fv)
						}
					}
				}
				if paramIdx < 0 && !localOK {
					// the depth may travel in another form (a field of a struct
					// handed to a named clean-up function): follow it to where
					// it was read
					origins := traceSaved(p, body, c.Common().Args[1], 0)
					all := len(origins) > 0
					for _, o := range origins {
						dc, isCall := o.v.(*ssa.Call)
						if !isCall || dc.Call.StaticCallee() != er.depth {
							all = false
							continue
						}
						for _, opener := range scopeOpeners(p, er) {
							for _, open := range callsTo(o.fn, opener) {
								before := false
								for _, c2 := range callsTo(o.fn, re.fn) {
									if dominatesInstr(open.(ssa.Instruction), c2.(ssa.Instruction)) {
										before = true
									}
								}
								if before && !dominatesInstr(dc, open.(ssa.Instruction)) {
									all, localWhy = false, "the scope depth is read ("+p.Pos(dc.Pos())+") after the callee's scope was opened ("+p.Pos(open.Pos())+"): that scope survives the call"
								}
							}
						}
					}
					if all {
						localOK = true
					}
				}
			}
		}
		if !found {
			r.Fail(key, p.Pos(re.call.Pos()), "no deferred call truncates the scope stack after the called function: scopes opened by loops the function returned out of stay open, and its arguments can leak into the caller")
			continue
		}
		good, why := paramIdx >= 0, "the depth restored is not a value handed in by the caller"
		if paramIdx < 0 && (localOK || localWhy != "") {
			good, why = localOK, localWhy
		}
		if paramIdx >= 0 {
			for _, caller := range p.LibFns {
				for _, c := range callsTo(caller, re.fn) {
					arg := c.Common().Args[paramIdx]
					dc, isCall := arg.(*ssa.Call)
					if !isCall || dc.Call.StaticCallee() != er.depth {
						good, why = false, "the depth passed at "+p.Pos(c.Pos())+" is not a reading of the scope depth"
						continue
					}
					for _, opener := range scopeOpeners(p, er) {
						for _, open := range callsTo(caller, opener) {
							if dominatesInstr(open, c) && !dominatesInstr(dc, open) {
								good, why = false, "the scope depth is read ("+p.Pos(dc.Pos())+") after the callee's scope was opened ("+p.Pos(open.Pos())+"): that scope survives the call"
							}
						}
					}
				}
			}
		}
		if good {
			r.OkNT(key, p.Pos(re.call.Pos()), "deferred truncation to the depth read before the callee's scope was opened")
		} else {
			r.Fail(key, p.Pos(re.call.Pos()), why)
		}
	}
	// (3) Execute truncates to zero in a deferred call
	var runCall ssa.CallInstruction
	for _, c := range callsTo(a.execute, a.vmEntry) {
		runCall = c
	}
	if runCall == nil {
		r.Undecided("Execute runs the machine", p.Pos(a.execute.Pos()), "Execute does not call the interpreter directly")
		return
	}
	zero := false
	for _, body := range deferredBodies(a.execute, runCall) {
		for _, c := range callsTo(body, er.truncate) {
			if n, ok := constInt(c.Common().Args[1]); ok && n == 0 {
				// unconditional: executed on every path through the deferred function
				all := true
				for _, bb := range body.Blocks {
					if _, isRet := terminator(bb).(*ssa.Return); isRet {
						if !(c.Block() == bb || c.Block().Dominates(bb)) {
							all = false
						}
					}
				}
				if all {
					zero = true
				}
			}
		}
	}
	for _, b := range a.execute.Blocks {
		for _, ins := range b.Instrs {
			if d, ok := ins.(*ssa.Defer); ok && d.Call.StaticCallee() == er.truncate && dominatesInstr(d, runCall) {
				if n, ok := constInt(d.Call.Args[1]); ok && n == 0 {
					zero = true
				}
			}
		}
	}
	r.Check(zero, "a run ends with no scope open", p.Pos(runCall.Pos()), "Execute defers a truncation of the scope stack to zero", "Execute does not close the scopes a run left open (early return out of a top-level loop, run-time error, panic, time-out): loop variables of one run stay visible — and shadow globals — in the next, and the scope stack grows with every such run")
}

func ruleScopePair(p *Program, r *Reporter) {
	a := needAnchors(p, r)
	if a == nil {
		return
	}
	er := resolveEnvRoles(p)
	if er.addScope == nil || er.removeScope == nil {
		r.Undecided("scope primitives", "-", "cannot find the methods that open / close a scope")
		return
	}
	run := a.vmRun
	// (1) every re-entry path from the dispatch loop opens a scope first
	for _, re := range runReentries(p, a.vmEntry) {
		// the call in Run that leads to the re-entry (directly or via a wrapper)
		var sites []ssa.CallInstruction
		if re.fn == run {
			sites = []ssa.CallInstruction{re.call}
		} else {
			sites = callsTo(run, re.fn)
			// … or in a part of a handler that has a function of its own
			for _, h := range handlerFns(p, a) {
				if h != re.fn {
					sites = append(sites, callsTo(h, re.fn)...)
				}
			}
		}
		for _, site := range sites {
			opened := false
			for _, opener := range scopeOpeners(p, er) {
				for _, open := range callsTo(site.Parent(), opener) {
					if dominatesInstr(open, site) && (site.Parent() != run || outerCase(p, run, open.Pos()) == outerCase(p, run, site.Pos())) {
						opened = true
					}
				}
				// or the function that re-enters opens it itself, before it does
				if re.fn != run {
					for _, open := range callsTo(re.fn, opener) {
						if dominatesInstr(open, re.call.(ssa.Instruction)) {
							opened = true
						}
					}
				}
			}
			r.Check(opened, "call handler opens the callee's scope before re-entering", p.Pos(site.Pos()), "AddScope dominates the call in the same handler", "the interpreter is re-entered for a function body without a new scope: parameters and locals of the function are bound in the caller's scope")
		}
	}
	// (2) reset handler opens, step handler's exhaustion branch closes
	resetOpens, stepCloses := false, false
	for _, open := range callsTo(run, er.addScope) {
		if strings.Contains(outerCase(p, run, open.Pos()), "OpIterationReset") {
			resetOpens = true
		}
	}
	closers := callsTo(run, er.removeScope)
	if er.truncate != nil {
		closers = append(closers, callsTo(run, er.truncate)...)
	}
	for _, cl := range closers {
		if !strings.Contains(outerCase(p, run, cl.Pos()), "OpIterationNext") {
			continue
		}
		// on the branch where iteration is over: a block that also pushes the
		// false object, and is not the block that binds the loop variable
		blk := cl.Block()
		pushesFalse := false
		for _, ins := range blk.Instrs {
			if c, ok := ins.(*ssa.Call); ok && c.Call.StaticCallee() != nil && c.Call.StaticCallee().Name() == "Push" {
				if u, ok := c.Call.Args[1].(*ssa.MakeInterface); ok {
					if ld, ok := u.X.(*ssa.UnOp); ok {
						if g, ok := ld.X.(*ssa.Global); ok && g.Name() == "False" {
							pushesFalse = true
						}
					}
				}
			}
		}
		if pushesFalse {
			stepCloses = true
		}
	}
	r.Check(resetOpens, "iterator reset opens the loop's scope", p.Pos(run.Pos()), "AddScope in the OpIterationReset handler", "the loop's scope is not opened when iteration starts: loop variables are bound in the enclosing scope and survive the loop")
	r.Check(stepCloses, "iterator exhaustion closes the loop's scope", p.Pos(run.Pos()), "scope removed on the branch that pushes false", "the loop's scope is not closed when the iteration is exhausted: each completed loop leaves a scope open")
}

// scopeOpeners: the method that pushes a scope, and every Environment method
// that calls it on all of its paths (a function-call variant that also records
// where the callee's scopes begin, say).
func scopeOpeners(p *Program, er *envRoles) []*ssa.Function {
	out := []*ssa.Function{er.addScope}
	is := map[*ssa.Function]bool{er.addScope: true}
	// methods of the environment — and of the machine: the part of the call
	// handler that sets the callee up — that open a scope on all their paths
	for changed := true; changed; {
		changed = false
		for _, fn := range p.LibFns {
			if is[fn] || fn.Parent() != nil || !(recvNamed(fn, "environment", "Environment") || recvNamed(fn, "vm", "VM")) {
				continue
			}
			var calls []ssa.CallInstruction
			for o := range is {
				calls = append(calls, callsTo(fn, o)...)
			}
			if len(calls) == 0 {
				continue
			}
			all := true
			for _, b := range fn.Blocks {
				if _, ok := terminator(b).(*ssa.Return); !ok {
					continue
				}
				dom := false
				for _, c := range calls {
					if c.Block() == b || c.Block().Dominates(b) {
						dom = true
					}
				}
				if !dom {
					all = false
				}
			}
			if all {
				is[fn] = true
				out = append(out, fn)
				changed = true
			}
		}
	}
	return out
}

func ruleBindInner(p *Program, r *Reporter) {
	a := needAnchors(p, r)
	if a == nil {
		return
	}
	er := resolveEnvRoles(p)
	if er.scopeField == "" {
		r.Undecided("scope stack", "-", "cannot find the scope stack field")
		return
	}
	envSet := methodOf(p, "environment", "Environment", "Set")
	// binders: Environment methods (string, Object) called from the interpreter,
	// other than the global Set
	binders := map[*ssa.Function][]ssa.CallInstruction{}
	// (the interpreter, and the parts of its handlers that have a function of
	// their own: `vm.declare(name, value)`)
	scan := []*ssa.Function{a.vmRun}
	for f := range interpreterOnly(p, a) {
		scan = append(scan, f)
	}
	sort.Slice(scan[1:], func(i, j int) bool { return p.FnName(scan[1+i]) < p.FnName(scan[1+j]) })
	for _, sf := range scan {
		for _, b := range sf.Blocks {
			for _, ins := range b.Instrs {
				ci, ok := ins.(ssa.CallInstruction)
				if !ok {
					continue
				}
				cal := ci.Common().StaticCallee()
				if cal == nil || cal == envSet || !recvNamed(cal, "environment", "Environment") {
					continue
				}
				ps := sigParams(cal)
				if len(ps) == 2 && isObjectIface(ps[1]) {
					if sf != a.vmRun {
						// made on behalf of the handlers that call this part: one
						// obligation for each of them
						lifted := 0
						for _, site := range staticCallSites(p, sf) {
							if c2, ok := site.(ssa.CallInstruction); ok {
								binders[cal] = append(binders[cal], c2)
								lifted++
							}
						}
						if lifted > 0 {
							continue
						}
					}
					binders[cal] = append(binders[cal], ci)
				}
			}
		}
	}
	if len(binders) == 0 {
		r.Undecided("binders", p.Pos(a.vmRun.Pos()), "the interpreter calls no scoped binder of the environment")
		return
	}
	for fn, sites := range binders {
		innermost := true
		why := ""
		n := 0
		for _, b := range fn.Blocks {
			for _, ins := range b.Instrs {
				mu, ok := ins.(*ssa.MapUpdate)
				if !ok {
					continue
				}
				n++
				if !isInnermostScope(mu.Map, er.scopeField) {
					innermost = false
					why = "the binder stores into a scope map selected by a search (" + p.Pos(mu.Pos()) + ")"
				}
			}
		}
		if n == 0 {
			innermost, why = false, "the binder stores nothing"
		}
		for _, s := range sites {
			key := siteKey(p, s.Parent(), s.Pos(), "binds in the innermost scope via "+fn.Name())
			if cond := envDependentGuard(p, s.Parent(), s, er.scopeField); cond != nil && innermost {
				r.Fail(key, p.Pos(cond.Pos()), "whether the name is bound in the new scope depends on what the scopes already hold (a query of the scope stack guards the binding): a `local`, parameter or loop variable whose name exists in the caller, in another activation of the same function or in an enclosing loop is then not bound at all, and the callee reads and overwrites that other variable — recursion computes with one shared variable")
				continue
			}
			if innermost {
				r.OkNT(key, p.Pos(s.Pos()), "stores into scopes[len(scopes)-1]")
			} else {
				r.Fail(key, p.Pos(s.Pos()), why+": binding a parameter, loop variable or local overwrites a variable of the same name that belongs to the caller or to an enclosing loop (recursive functions compute with the callee's arguments)")
			}
		}
	}
}

// envDependentGuard: a condition inside the same interpreter case that guards
// the binding call and is computed from a call of an Environment method.
// readsScopes: the function (or an Environment method it calls) loads the scope stack.
func readsScopes(fn *ssa.Function, scopeField string, seen map[*ssa.Function]bool) bool {
	if seen[fn] {
		return false
	}
	seen[fn] = true
	for _, b := range fn.Blocks {
		for _, ins := range b.Instrs {
			if ld, ok := ins.(*ssa.UnOp); ok && ld.Op == token.MUL && fieldKey(ld.X) == scopeField {
				return true
			}
			if cc := callOf(ins); cc != nil && cc.StaticCallee() != nil && recvNamed(cc.StaticCallee(), "environment", "Environment") {
				if readsScopes(cc.StaticCallee(), scopeField, seen) {
					return true
				}
			}
		}
	}
	return false
}

func envDependentGuard(p *Program, run *ssa.Function, site ssa.CallInstruction, scopeField string) ssa.Value {
	clause := outerCase(p, run, site.Pos())
	sb := site.Block()
	for cur := sb; cur.Idom() != nil; cur = cur.Idom() {
		d := cur.Idom()
		iff, ok := terminator(d).(*ssa.If)
		if !ok {
			continue
		}
		s0 := d.Succs[0] == sb || d.Succs[0].Dominates(sb)
		s1 := d.Succs[1] == sb || d.Succs[1].Dominates(sb)
		if s0 == s1 {
			continue
		}
		if iff.Cond.Pos().IsValid() && outerCase(p, run, iff.Cond.Pos()) != clause {
			continue
		}
		seen := map[ssa.Value]bool{}
		var fromEnv func(v ssa.Value, d int) bool
		fromEnv = func(v ssa.Value, d int) bool {
			if seen[v] || d > 6 {
				return false
			}
			seen[v] = true
			switch x := v.(type) {
			case *ssa.Call:
				if cal := x.Call.StaticCallee(); cal != nil && recvNamed(cal, "environment", "Environment") && readsScopes(cal, scopeField, map[*ssa.Function]bool{}) {
					return true
				}
			case *ssa.Extract:
				return fromEnv(x.Tuple, d+1)
			case *ssa.BinOp:
				return fromEnv(x.X, d+1) || fromEnv(x.Y, d+1)
			case *ssa.UnOp:
				return fromEnv(x.X, d+1)
			case *ssa.Phi:
				for _, e := range x.Edges {
					if fromEnv(e, d+1) {
						return true
					}
				}
			}
			return false
		}
		if fromEnv(iff.Cond, 0) {
			return iff.Cond
		}
	}
	return nil
}

// isInnermostScope: v is *(&scopes[len(scopes)-1]) for the scope stack field.
func isInnermostScope(v ssa.Value, scopeField string) bool {
	for _, o := range origins(v) {
		ld, ok := o.(*ssa.UnOp)
		if !ok || ld.Op != token.MUL {
			return false
		}
		_ = ld
	}
	// direct shape
	ld, ok := v.(*ssa.UnOp)
	if !ok || ld.Op != token.MUL {
		// local variable holding the map: cur := e.local[len-1]
		return false
	}
	ia, ok := ld.X.(*ssa.IndexAddr)
	if !ok {
		return false
	}
	base, ok := ia.X.(*ssa.UnOp)
	if !ok || fieldKey(base.X) != scopeField {
		return false
	}
	bo, ok := ia.Index.(*ssa.BinOp)
	if !ok || bo.Op != token.SUB {
		return false
	}
	if n, ok := constInt(bo.Y); !ok || n != 1 {
		return false
	}
	lc, ok := isBuiltinCall(bo.X, "len")
	if !ok {
		return false
	}
	u, ok := lc.Call.Args[0].(*ssa.UnOp)
	return ok && fieldKey(u.X) == scopeField
}

// ---------------------------------------------------------------------------
// R-NOMUT

// mutatorMethods: for each object struct type, the methods that store into a
// field of their receiver.
func mutatorMethods(p *Program) map[string]map[string]*ssa.Function {
	out := map[string]map[string]*ssa.Function{}
	for _, fn := range p.LibFns {
		if fn.Parent() != nil || fn.Signature.Recv() == nil {
			continue
		}
		tn := objectStructName(fn.Signature.Recv().Type())
		if tn == "" || len(fn.Params) == 0 {
			continue
		}
		recv := fn.Params[0]
		for _, b := range fn.Blocks {
			for _, ins := range b.Instrs {
				// the address of one of the receiver's fields handed to a
				// function that stores through it is a store into the receiver
				if cc := callOf(ins); cc != nil && cc.StaticCallee() != nil {
					for i, arg := range cc.Args {
						fa, ok := arg.(*ssa.FieldAddr)
						if !ok || fa.X != ssa.Value(recv) || i >= len(cc.StaticCallee().Params) {
							continue
						}
						if storesThrough(cc.StaticCallee(), cc.StaticCallee().Params[i]) {
							if out[tn] == nil {
								out[tn] = map[string]*ssa.Function{}
							}
							out[tn][fn.Name()] = fn
						}
					}
				}
				st, ok := ins.(*ssa.Store)
				if !ok {
					continue
				}
				fa, ok := st.Addr.(*ssa.FieldAddr)
				if !ok || fa.X != recv {
					continue
				}
				if out[tn] == nil {
					out[tn] = map[string]*ssa.Function{}
				}
				out[tn][fn.Name()] = fn
			}
		}
	}
	// a method that calls a mutating method on its own receiver mutates it too
	// (Inspect() → Entries(), were Entries to keep its sorted list in the hash)
	for changed := true; changed; {
		changed = false
		for _, fn := range p.LibFns {
			if fn.Parent() != nil || fn.Signature.Recv() == nil || len(fn.Params) == 0 {
				continue
			}
			tn := objectStructName(fn.Signature.Recv().Type())
			if tn == "" || out[tn] == nil || out[tn][fn.Name()] != nil {
				continue
			}
			recv := ssa.Value(fn.Params[0])
			for _, b := range fn.Blocks {
				for _, ins := range b.Instrs {
					cc := callOf(ins)
					if cc == nil || cc.StaticCallee() == nil || len(cc.Args) == 0 || cc.Args[0] != recv {
						continue
					}
					if out[tn][cc.StaticCallee().Name()] == cc.StaticCallee() {
						out[tn][fn.Name()] = fn
						changed = true
					}
				}
			}
		}
	}
	return out
}

// copierCovers: fn (Object→Object) returns a fresh *T for an argument of
// dynamic type *T.
func copierCovers(fn *ssa.Function, typ string) bool {
	if len(fn.Params) == 0 {
		return false
	}
	for _, b := range fn.Blocks {
		for _, ins := range b.Instrs {
			ta, ok := ins.(*ssa.TypeAssert)
			if !ok || !ta.CommaOk || objectStructName(ta.AssertedType) != typ {
				continue
			}
			isParam := false
			for _, o := range origins(ta.X) {
				if _, ok := o.(*ssa.Parameter); ok {
					isParam = true
				}
			}
			if !isParam {
				continue
			}
			// the ok edge
			for _, ref := range liveRefs(ta) {
				ex, ok := ref.(*ssa.Extract)
				if !ok || ex.Index != 1 {
					continue
				}
				for _, r2 := range liveRefs(ex) {
					iff, ok := r2.(*ssa.If)
					if !ok {
						continue
					}
					tb := iff.Block().Succs[0]
					if len(tb.Preds) != 1 {
						continue
					}
					// every return that can be reached once the argument is known
					// to be a *T hands back a fresh *T: a copier that returns the
					// argument itself on some path (a copy made "only when needed")
					// gives a shared object to whoever mutates the result
					fresh, stale := 0, 0
					seen := map[*ssa.BasicBlock]bool{}
					var walk func(bb *ssa.BasicBlock)
					walk = func(bb *ssa.BasicBlock) {
						if seen[bb] {
							return
						}
						seen[bb] = true
						if ret, ok := terminator(bb).(*ssa.Return); ok {
							isFresh := false
							if len(ret.Results) == 1 {
								for _, o := range origins(ret.Results[0]) {
									if mi, ok := o.(*ssa.MakeInterface); ok {
										if al, ok := mi.X.(*ssa.Alloc); ok && al.Heap && objectStructName(al.Type()) == typ {
											isFresh = true
											continue
										}
									}
									isFresh = false
									break
								}
							}
							if isFresh {
								fresh++
							} else {
								stale++
							}
							return
						}
						for _, sc := range bb.Succs {
							walk(sc)
						}
					}
					walk(tb)
					if fresh > 0 && stale == 0 {
						return true
					}
				}
			}
		}
	}
	return false
}

func ruleNoMut(p *Program, r *Reporter) {
	a := needAnchors(p, r)
	if a == nil {
		return
	}
	muts := mutatorMethods(p)
	byMethod := map[string][]string{} // method name -> types
	for t, ms := range muts {
		for m := range ms {
			byMethod[m] = append(byMethod[m], t)
		}
	}
	for m := range byMethod {
		sort.Strings(byMethod[m])
	}
	if len(byMethod) == 0 {
		r.Undecided("mutating methods", "-", "no receiver-mutating method of an object type found (expected the increment/decrement and iteration methods)")
		return
	}
	reach := p.Reachable(a.vmRun)
	// is every emit of the iterator step preceded by an emit of the reset?
	stepAfterReset := iteratorStepFollowsReset(p, a)
	var fns []*ssa.Function
	for fn := range reach {
		if fnPkg(fn) != nil && IsLibPath(fnPkg(fn).Pkg.Path()) {
			fns = append(fns, fn)
		}
	}
	sort.Slice(fns, func(i, j int) bool { return p.FnName(fns[i]) < p.FnName(fns[j]) })
	for _, fn := range fns {
		for _, b := range fn.Blocks {
			for _, ins := range b.Instrs {
				ci, ok := ins.(ssa.CallInstruction)
				if !ok {
					continue
				}
				cc := ci.Common()
				var mname string
				var recv ssa.Value
				if cc.IsInvoke() {
					mname, recv = cc.Method.Name(), cc.Value
					if !isNamedIn(cc.Value.Type(), Mod+"/object") {
						continue
					}
				} else if cal := cc.StaticCallee(); cal != nil && cal.Signature.Recv() != nil && objectStructName(cal.Signature.Recv().Type()) != "" {
					mname, recv = cal.Name(), cc.Args[0]
				}
				types_, isMut := byMethod[mname]
				if !isMut || recv == nil {
					continue
				}
				// calls inside the object package on the receiver itself are the
				// methods' own business
				if fnPkg(fn).Pkg.Path() == Mod+"/object" {
					continue
				}
				key := siteKey(p, fn, ci.Pos(), "invokes mutating "+mname)
				// origin of the receiver
				fresh, via := true, ""
				if len(outerOrigins(recv)) == 0 {
					fresh, via = false, "a value of unknown origin"
				}
				for _, o := range outerOrigins(recv) {
					switch x := o.(type) {
					case *ssa.Alloc:
						if !x.Heap && false {
							fresh = false
						}
					case *ssa.Call:
						cal := x.Call.StaticCallee()
						if cal == nil || fnPkg(cal) == nil || !IsLibPath(fnPkg(cal).Pkg.Path()) {
							fresh = false
							via = "a value of unknown origin"
							break
						}
						for _, t := range types_ {
							if !copierCovers(cal, t) {
								fresh = false
								via = fmt.Sprintf("the result of %s, which does not return a fresh copy for *object.%s", cal.Name(), t)
							}
						}
						if fresh && via == "" {
							via = "copy made by " + cal.Name()
						}
					case *ssa.Extract:
						// popped from the stack, or any other tuple
						fresh = false
						via = "a value taken from the stack or a container"
					default:
						fresh = false
						via = fmt.Sprintf("a value of unknown origin (%T)", o)
					}
				}
				if fresh {
					r.OkNT(key, p.Pos(ci.Pos()), via+" (covers "+strings.Join(types_, ", ")+")")
					continue
				}
				// the iterator step works on what the reset handler pushed
				if mname == "Next" && stepAfterReset && resetSiteCopies(p, a, byMethod) {
					r.OkNT(key, p.Pos(ci.Pos()), "operates on the private copy the iterator-reset handler pushed (the compiler emits the step only after a reset; the reset site copies)")
					continue
				}
				r.Fail(key, p.Pos(ci.Pos()), "the interpreter calls the receiver-mutating method "+mname+" on "+via+": the same object may be held by another variable, the constant pool, the field cache or an enclosing loop, all of which observe the change")
			}
		}
	}
	// no other library code stores into fields of value objects
	for _, fn := range p.LibFns {
		for _, b := range fn.Blocks {
			for _, ins := range b.Instrs {
				st, ok := ins.(*ssa.Store)
				if !ok {
					continue
				}
				fa, ok := st.Addr.(*ssa.FieldAddr)
				if !ok {
					continue
				}
				tn := objectStructName(fa.X.Type())
				if tn == "" {
					continue
				}
				if _, isAlloc := fa.X.(*ssa.Alloc); isAlloc {
					continue // building a new object
				}
				if fn.Signature.Recv() != nil && objectStructName(fn.Signature.Recv().Type()) == tn && len(fn.Params) > 0 && fa.X == fn.Params[0] {
					continue // the type's own mutator, handled above
				}
				_, f, _ := fieldOf(fa)
				r.Fail(siteKey(p, fn, st.Pos(), "stores into object."+tn+"."+f), p.Pos(st.Pos()), "library code outside the type's own methods writes a field of an existing value object")
			}
		}
	}
}

func isNamedIn(t types.Type, pkgPath string) bool {
	n, ok := types.Unalias(deref(t)).(*types.Named)
	return ok && n.Obj().Pkg() != nil && n.Obj().Pkg().Path() == pkgPath
}

// iteratorStepFollowsReset: in the compiler every emit of OpIterationNext is
// dominated by an emit of OpIterationReset.
func iteratorStepFollowsReset(p *Program, a *anchors) bool {
	var resets, steps []*ssa.Call
	for _, e := range emitSites(p, a, a.compile) {
		switch e.op {
		case "OpIterationReset":
			resets = append(resets, e.call)
		case "OpIterationNext":
			steps = append(steps, e.call)
		}
	}
	if len(steps) == 0 {
		return false
	}
	for _, s := range steps {
		ok := false
		for _, rs := range resets {
			if dominatesInstr(rs, s) {
				ok = true
			}
		}
		if !ok {
			return false
		}
	}
	return true
}

// resetSiteCopies: the Reset invocation in the interpreter is on a copier's result
// covering all iterable library types.
func resetSiteCopies(p *Program, a *anchors, byMethod map[string][]string) bool {
	ok := false
	for _, b := range a.vmRun.Blocks {
		for _, ins := range b.Instrs {
			ci, isCall := ins.(ssa.CallInstruction)
			if !isCall || !ci.Common().IsInvoke() || ci.Common().Method.Name() != "Reset" {
				continue
			}
			good := true
			n := 0
			for _, o := range outerOrigins(ci.Common().Value) {
				c, isC := o.(*ssa.Call)
				if !isC || c.Call.StaticCallee() == nil {
					good = false
					continue
				}
				n++
				for _, t := range byMethod["Next"] {
					if !copierCovers(c.Call.StaticCallee(), t) {
						good = false
					}
				}
			}
			if good && n > 0 {
				ok = true
			}
		}
	}
	return ok
}

// ---------------------------------------------------------------------------
// R-STATECENSUS

// stateClasses: every group of state written by code reachable from the
// interpreter, with its class and the rule that checks the class's obligation.
var stateClasses = map[string]string{
	"field environment.Environment.global":  "persistent by design: script variables (C07 names them as the evaluator's state)",
	"map environment.Environment.global":    "persistent by design: script variables",
	"field vm.VM.fields":                    "reset at interpreter entry (R-RUNRESET)",
	"map vm.VM.fields":                      "reset at interpreter entry (R-RUNRESET)",
	"field stack.Stack.entries":             "emptied at interpreter entry (R-RUNRESET)",
	"field vm.VM.bytecode":                  "swapped for a call, restored by defer (R-FRAMERESTORE)",
	"field vm.VM.stack":                     "swapped for a call, restored by defer (R-FRAMERESTORE)",
	"field environment.Environment.local":   "scope stack, restored by depth on every exit (R-SCOPERESTORE)",
	"map environment.Environment.local[]":   "variables of an open scope; the scope stack is restored by depth (R-SCOPERESTORE)",
	"elem environment.Environment.local":    "variables of an open scope; the scope stack is restored by depth (R-SCOPERESTORE)",
	"field object.Integer.Value":            "only on private copies (R-NOMUT)",
	"field object.Float.Value":              "only on private copies (R-NOMUT)",
	"field object.Array.offset":             "iteration cursor of a private copy (R-NOMUT)",
	"field object.Hash.offset":              "iteration cursor of a private copy (R-NOMUT)",
	"field object.String.offset":            "iteration cursor of a private copy (R-NOMUT)",
	"map global environment.regCache":       "idempotent cache: the value is determined by the key; guarded by a mutex (R-GLOBALS)",
	"field environment.regCacheLock (sync)": "the cache's mutex",
}

// scopeCompanion: a slice field of the environment that is only appended to by
// a method that also opens a scope, and is cut back in the method that
// truncates the scope stack: it lives and dies with the scope stack, whose
// restoration by depth on every exit R-SCOPERESTORE checks.
func scopeCompanion(p *Program, k string) string {
	if !strings.HasPrefix(k, "field environment.Environment.") {
		return ""
	}
	fk := strings.TrimPrefix(k, "field ")
	er := resolveEnvRoles(p)
	if er.truncate == nil || er.addScope == nil {
		return ""
	}
	openers := map[*ssa.Function]bool{}
	for _, f := range scopeOpeners(p, er) {
		openers[f] = true
	}
	cutInTruncate, n := false, 0
	for _, fn := range p.LibFns {
		for _, b := range fn.Blocks {
			for _, ins := range b.Instrs {
				st, ok := ins.(*ssa.Store)
				if !ok || fieldKey(st.Addr) != fk {
					continue
				}
				n++
				_, isApp := isBuiltinCall(st.Val, "append")
				_, isSlice := st.Val.(*ssa.Slice)
				switch {
				case isApp && openers[fn]:
				case isSlice && fn == er.truncate:
					cutInTruncate = true
				default:
					if fn.Name() == "init" || isFreshEmpty(st.Val) {
						continue
					}
					return ""
				}
			}
		}
	}
	if n == 0 || !cutInTruncate {
		return ""
	}
	return "companion of the scope stack: appended to only where a scope is opened, cut back in " + er.truncate.Name() + " together with the stack (restored by depth on every exit: R-SCOPERESTORE)"
}

// balancedState: a counter that every function increments by one and
// decrements again in a deferred function registered in the same function, or
// a set (map to bool) into which every function inserts a key that a deferred
// delete in the same function removes again.  Whatever way the function is
// left — return, error, panic — the state is what it was on entry.
func balancedState(p *Program, k string) string {
	var fk string
	switch {
	case strings.HasPrefix(k, "field "):
		fk = strings.TrimPrefix(k, "field ")
	case strings.HasPrefix(k, "map "):
		fk = strings.TrimPrefix(k, "map ")
	default:
		return ""
	}
	incs, decs, ins, dels, other := 0, 0, 0, 0, 0
	pushes, pops := 0, 0
	balanced := true
	for _, fn := range p.LibFns {
		root := fn
		for root.Parent() != nil {
			root = root.Parent()
		}
		for _, b := range fn.Blocks {
			for _, x := range b.Instrs {
				switch v := x.(type) {
				case *ssa.Store:
					if fieldKey(v.Addr) != fk {
						continue
					}
					if bo, ok := v.Val.(*ssa.BinOp); ok {
						if n, ok := constInt(bo.Y); ok && n == 1 {
							if ld, ok := bo.X.(*ssa.UnOp); ok && fieldKey(ld.X) == fk {
								if bo.Op == token.ADD {
									incs++
									if !hasDeferredUndo(root, fk, "dec") && !undoneByCallers(p, root, fk, "dec") {
										balanced = false
									}
									continue
								}
								if bo.Op == token.SUB {
									decs++
									if !(fn.Parent() != nil && isDeferredBody(fn)) && !onlyDeferred(p, fn) {
										balanced = false
									}
									continue
								}
							}
						}
					}
					if isFreshEmpty(v.Val) || isMakeMapVal(v.Val) {
						continue // created on first use
					}
					other++
				case *ssa.MapUpdate:
					if ld, ok := v.Map.(*ssa.UnOp); ok && fieldKey(ld.X) == fk {
						ins++
						if !hasDeferredUndo(root, fk, "delete") && !undoneByCallers(p, root, fk, "delete") {
							balanced = false
						}
					}
				case *ssa.Defer:
					if bi, ok := v.Call.Value.(*ssa.Builtin); ok && bi.Name() == "delete" {
						if ld, ok := v.Call.Args[0].(*ssa.UnOp); ok && fieldKey(ld.X) == fk {
							dels++
						}
					}
					if listPop(v.Call.StaticCallee()) && len(v.Call.Args) == 1 && fieldKey(v.Call.Args[0]) == fk {
						pops++
					}
					if v.Call.StaticCallee() == nil && !v.Call.IsInvoke() && defersUndoHandedBack(root, fk) {
						dels++
					}
				case *ssa.Call:
					// the field kept as a list: an element pushed, the pop deferred
					if listPush(v.Call.StaticCallee()) && fieldKey(v.Call.Args[0]) == fk {
						pushes++
						deferred := false
						for _, rb := range root.Blocks {
							for _, ri := range rb.Instrs {
								if d, ok := ri.(*ssa.Defer); ok && listPop(d.Call.StaticCallee()) && len(d.Call.Args) == 1 && fieldKey(d.Call.Args[0]) == fk {
									deferred = true
								}
							}
						}
						if !deferred {
							balanced = false
						}
					}
				}
			}
		}
	}
	if other > 0 || !balanced {
		return ""
	}
	if incs > 0 && decs > 0 {
		return fmt.Sprintf("balanced counter: %d increment(s), each undone by a deferred decrement registered in the same function (restored on every exit, a panic included)", incs)
	}
	if pushes > 0 && pops > 0 && ins == 0 && incs == 0 {
		return fmt.Sprintf("balanced list: %d push(es), each undone by a deferred pop in the same function (restored on every exit, a panic included)", pushes)
	}
	if ins > 0 && dels > 0 {
		return fmt.Sprintf("balanced set: %d insertion(s), each undone by a deferred delete in the same function (restored on every exit, a panic included)", ins)
	}
	return ""
}

func isMakeMapVal(v ssa.Value) bool {
	_, ok := v.(*ssa.MakeMap)
	return ok
}

// isDeferredBody: fn is an anonymous function that its parent defers.
func isDeferredBody(fn *ssa.Function) bool {
	par := fn.Parent()
	if par == nil {
		return false
	}
	for _, b := range par.Blocks {
		for _, ins := range b.Instrs {
			if d, ok := ins.(*ssa.Defer); ok {
				if mc, ok := d.Call.Value.(*ssa.MakeClosure); ok && mc.Fn == ssa.Value(fn) {
					return true
				}
				if d.Call.StaticCallee() == fn {
					return true
				}
			}
		}
	}
	return false
}

// onlyDeferred: fn is a named function that library code only ever invokes by
// a defer statement (a clean-up function).
func onlyDeferred(p *Program, fn *ssa.Function) bool {
	n := 0
	for _, g := range p.LibFns {
		for _, b := range g.Blocks {
			for _, ins := range b.Instrs {
				cc := callOf(ins)
				if cc == nil || cc.StaticCallee() != fn {
					continue
				}
				if _, isDefer := ins.(*ssa.Defer); !isDefer {
					return false
				}
				n++
			}
		}
	}
	return n > 0
}

// hasDeferredUndo: root defers (directly, or in a deferred closure) the
// decrement of the counter / the delete from the set.
func hasDeferredUndo(root *ssa.Function, fk, kind string) bool {
	if kind == "delete" && defersUndoHandedBack(root, fk) {
		return true
	}
	for _, b := range root.Blocks {
		for _, ins := range b.Instrs {
			d, ok := ins.(*ssa.Defer)
			if !ok {
				continue
			}
			if kind == "delete" {
				if bi, ok := d.Call.Value.(*ssa.Builtin); ok && bi.Name() == "delete" {
					if ld, ok := d.Call.Args[0].(*ssa.UnOp); ok && fieldKey(ld.X) == fk {
						return true
					}
				}
			}
			var body *ssa.Function
			if mc, ok := d.Call.Value.(*ssa.MakeClosure); ok {
				body, _ = mc.Fn.(*ssa.Function)
			} else if f := d.Call.StaticCallee(); f != nil {
				body = f
			}
			if body == nil {
				continue
			}
			for _, bb := range body.Blocks {
				for _, i2 := range bb.Instrs {
					switch v := i2.(type) {
					case *ssa.Store:
						if kind == "dec" && fieldKey(v.Addr) == fk {
							if bo, ok := v.Val.(*ssa.BinOp); ok && bo.Op == token.SUB {
								return true
							}
						}
					case *ssa.Call:
						if kind == "delete" {
							if bi, ok := v.Call.Value.(*ssa.Builtin); ok && bi.Name() == "delete" {
								if ld, ok := v.Call.Args[0].(*ssa.UnOp); ok && fieldKey(ld.X) == fk {
									return true
								}
							}
						}
					}
				}
			}
		}
	}
	return false
}

func ruleStateCensus(p *Program, r *Reporter) {
	a := needAnchors(p, r)
	if a == nil {
		return
	}
	reach := p.Reachable(a.vmRun)
	type grp struct {
		fns map[string]bool
		pos token.Pos
	}
	groups := map[string]*grp{}
	add := func(k string, fn *ssa.Function, pos token.Pos) {
		g := groups[k]
		if g == nil {
			g = &grp{fns: map[string]bool{}, pos: pos}
			groups[k] = g
		}
		g.fns[p.FnName(fn)] = true
	}
	// base of an address: is it visibly allocated in this function?
	var localBase func(v ssa.Value, depth int) bool
	inProgress := map[ssa.Value]bool{}
	localBase = func(v ssa.Value, depth int) bool {
		if depth > 12 {
			return false
		}
		if inProgress[v] {
			return true // a cycle through φ/append adds no new source
		}
		inProgress[v] = true
		defer delete(inProgress, v)
		switch x := v.(type) {
		case *ssa.Const:
			return x.IsNil()
		case *ssa.ChangeType:
			return localBase(x.X, depth+1)
		case *ssa.Alloc, *ssa.MakeMap, *ssa.MakeSlice:
			return true
		case *ssa.FieldAddr:
			return localBase(x.X, depth+1)
		case *ssa.IndexAddr:
			return localBase(x.X, depth+1)
		case *ssa.Slice:
			return localBase(x.X, depth+1)
		case *ssa.UnOp:
			if x.Op == token.MUL {
				// load of a local variable that only ever held fresh values
				if al, ok := x.X.(*ssa.Alloc); ok {
					all, n := true, 0
					for _, ref := range *al.Referrers() {
						if st, ok := ref.(*ssa.Store); ok && st.Addr == al {
							n++
							if !localBase(st.Val, depth+1) {
								all = false
							}
						}
					}
					return all && n > 0
				}
			}
		case *ssa.Phi:
			for _, e := range x.Edges {
				if !localBase(e, depth+1) {
					return false
				}
			}
			return true
		case *ssa.Call:
			if _, ok := isBuiltinCall(x, "append"); ok {
				return localBase(x.Call.Args[0], depth+1)
			}
		}
		return false
	}
	describe := func(v ssa.Value) string {
		switch x := v.(type) {
		case *ssa.FieldAddr:
			return fieldKey(x)
		case *ssa.Global:
			return "global " + canonName(shortPkg(x.Pkg.Pkg.Path())+"."+x.Name())
		}
		return ""
	}
	var fnsSorted []*ssa.Function
	for fn := range reach {
		if fnPkg(fn) != nil && IsLibPath(fnPkg(fn).Pkg.Path()) && fn.Blocks != nil {
			fnsSorted = append(fnsSorted, fn)
		}
	}
	sort.Slice(fnsSorted, func(i, j int) bool { return p.FnName(fnsSorted[i]) < p.FnName(fnsSorted[j]) })
	for _, fn := range fnsSorted {
		for _, b := range fn.Blocks {
			for _, ins := range b.Instrs {
				switch x := ins.(type) {
				case *ssa.Store:
					switch ad := x.Addr.(type) {
					case *ssa.FieldAddr:
						if localBase(ad.X, 0) {
							continue
						}
						add("field "+describe(ad), fn, x.Pos())
					case *ssa.Global:
						add("var "+describe(ad), fn, x.Pos())
					case *ssa.Parameter:
						// a store through a pointer the callers hand in: the
						// state is whatever they point it at
						k := -1
						for i, q := range fn.Params {
							if q == ad {
								k = i
							}
						}
						for _, site := range staticCallSites(p, fn) {
							args := site.Common().Args
							if k < 0 || k >= len(args) {
								continue
							}
							switch tgt := args[k].(type) {
							case *ssa.FieldAddr:
								if !localBase(tgt.X, 0) {
									add("field "+describe(tgt), fn, x.Pos())
								}
							case *ssa.Global:
								add("var "+describe(tgt), fn, x.Pos())
							case *ssa.Alloc:
							default:
								if !localBase(tgt, 0) {
									add("value "+typeStr(tgt.Type()), fn, x.Pos())
								}
							}
						}
					case *ssa.IndexAddr:
						if localBase(ad.X, 0) {
							continue
						}
						base := ""
						if u, ok := ad.X.(*ssa.UnOp); ok {
							base = describe(u.X)
						}
						if base == "" {
							if _, isParam := ad.X.(*ssa.Parameter); isParam {
								base = "parameter " + typeStr(ad.X.Type())
							} else {
								base = "value " + typeStr(ad.X.Type())
							}
						}
						add("elem "+base, fn, x.Pos())
					}
				case *ssa.MapUpdate:
					if localBase(x.Map, 0) {
						continue
					}
					// where the map comes from: a field, an element of a field, or
					// — through φ and the library's own functions — one of these
					// on every path
					var originsOf func(v ssa.Value, d int) (map[string]bool, bool)
					originsOf = func(v ssa.Value, d int) (map[string]bool, bool) {
						out := map[string]bool{}
						if d > 4 {
							return nil, false
						}
						switch m := v.(type) {
						case *ssa.Const:
							if m.IsNil() {
								return out, true
							}
						case *ssa.UnOp:
							if b := describe(m.X); b != "" {
								out[b] = true
								return out, true
							}
							if ia, ok := m.X.(*ssa.IndexAddr); ok {
								if u2, ok := ia.X.(*ssa.UnOp); ok && describe(u2.X) != "" {
									out[describe(u2.X)+"[]"] = true
									return out, true
								}
							}
						case *ssa.Phi:
							for _, e := range m.Edges {
								if e == v {
									continue
								}
								o, ok := originsOf(e, d+1)
								if !ok {
									return nil, false
								}
								for k := range o {
									out[k] = true
								}
							}
							return out, true
						case *ssa.Extract:
							// one of several results of a function of the same object
							cl, isCall := m.Tuple.(*ssa.Call)
							if !isCall {
								return nil, false
							}
							cal := cl.Call.StaticCallee()
							if cal == nil || fnPkg(cal) == nil || !IsLibPath(fnPkg(cal).Pkg.Path()) || cal.Signature.Recv() == nil || len(cl.Call.Args) == 0 || len(fn.Params) == 0 || cl.Call.Args[0] != ssa.Value(fn.Params[0]) {
								return nil, false
							}
							for _, rb := range cal.Blocks {
								if ret, ok := terminator(rb).(*ssa.Return); ok && m.Index < len(ret.Results) {
									o, ok := originsOf(returnOperand(ret, m.Index), d+1)
									if !ok {
										return nil, false
									}
									for k := range o {
										out[k] = true
									}
								}
							}
							return out, true
						case *ssa.Call:
							cal := m.Call.StaticCallee()
							if cal == nil || fnPkg(cal) == nil || !IsLibPath(fnPkg(cal).Pkg.Path()) || cal.Signature.Results().Len() != 1 {
								return nil, false
							}
							// the callee's receiver must be the caller's: the same object's field
							if cal.Signature.Recv() == nil || len(m.Call.Args) == 0 || len(fn.Params) == 0 || m.Call.Args[0] != ssa.Value(fn.Params[0]) {
								return nil, false
							}
							for _, rb := range cal.Blocks {
								if ret, ok := terminator(rb).(*ssa.Return); ok {
									o, ok := originsOf(returnOperand(ret, 0), d+1)
									if !ok {
										return nil, false
									}
									for k := range o {
										out[k] = true
									}
								}
							}
							return out, true
						}
						return nil, false
					}
					base := ""
					if o, ok := originsOf(x.Map, 0); ok && len(o) == 1 {
						for k := range o {
							base = k
						}
					}
					if base == "" {
						base = "value " + typeStr(x.Map.Type())
					}
					add("map "+base, fn, x.Pos())
				}
			}
		}
	}
	var keys []string
	for k := range groups {
		keys = append(keys, k)
	}
	sort.Strings(keys)
	for _, k := range keys {
		g := groups[k]
		var fl []string
		for f := range g.fns {
			fl = append(fl, f)
		}
		sort.Strings(fl)
		if len(fl) > 4 {
			fl = append(fl[:4], "…")
		}
		if strings.HasPrefix(k, "elem parameter ") {
			// a helper permuting/filling the slice it is given (sort.Interface):
			// fine when every value of that type is built from a local slice
			tname := strings.TrimPrefix(k, "elem parameter ")
			allLocal, n := true, 0
			for _, fn := range p.LibFns {
				for _, b := range fn.Blocks {
					for _, ins := range b.Instrs {
						var x ssa.Value
						var t types.Type
						switch c := ins.(type) {
						case *ssa.ChangeType:
							x, t = c.X, c.Type()
						case *ssa.Convert:
							x, t = c.X, c.Type()
						default:
							continue
						}
						if typeStr(t) != tname {
							continue
						}
						n++
						if !localBase(x, 0) {
							allLocal = false
						}
					}
				}
			}
			if allLocal && n > 0 {
				r.OkNT("state "+k, p.Pos(g.pos), fmt.Sprintf("helper writes into the slice it is given; all %d conversion(s) to %s in the library are of slices built locally", n, tname))
				continue
			}
		}
		if class, ok := stateClasses[k]; ok {
			r.OkNT("state "+k, p.Pos(g.pos), class+"; written by "+strings.Join(fl, ", "))
		} else if class, ok := stateNotRunState(k); ok {
			r.Ok("state "+k, p.Pos(g.pos), class)
		} else if why := scopeCompanion(p, k); why != "" {
			r.OkNT("state "+k, p.Pos(g.pos), why+"; written by "+strings.Join(fl, ", "))
		} else if why := balancedState(p, k); why != "" {
			r.OkNT("state "+k, p.Pos(g.pos), why+"; written by "+strings.Join(fl, ", "))
		} else if why := idempotentCache(p, k); why != "" {
			r.OkNT("state "+k, p.Pos(g.pos), why+"; written by "+strings.Join(fl, ", "))
		} else {
			r.Fail("state "+k, p.Pos(g.pos), "code reachable from the interpreter ("+strings.Join(fl, ", ")+") writes this state and no class (persistent by design / reset at entry / restored on exit / private copy / guarded cache) is recorded for it: it can carry information from one run to the next")
		}
	}
	_ = ast.Inspect
}

// stateNotRunState: groups that the call graph's over-approximation drags in
// (fmt's Stringer dispatch reaches AST printers; the optimizer and constructor
// helpers share functions with the interpreter) and that are not state of a
// prepared evaluator.
func stateNotRunState(k string) (string, bool) {
	switch {
	case strings.HasPrefix(k, "field lexer.Lexer."), strings.HasPrefix(k, "field parser.Parser."), strings.HasPrefix(k, "map parser.Parser."):
		return "state of a lexer/parser object that lives only inside Prepare (reached through the call graph's over-approximation)", true
	case strings.HasPrefix(k, "field evalfilter.Eval."):
		return "compiler output, written by Prepare only (reached through the call graph's over-approximation)", true
	}
	return "", false
}

// undoneByCallers: the function that marks (inserts / increments) is only
// ever called directly, and every function that calls it registers the
// deferred undo itself.
func undoneByCallers(p *Program, fn *ssa.Function, fk, kind string) bool {
	if functionUsedAsValue(p, fn) {
		return false
	}
	sites := staticCallSites(p, fn)
	if len(sites) == 0 {
		return false
	}
	for _, site := range sites {
		g := site.Parent()
		if g == nil {
			return false
		}
		for g.Parent() != nil {
			g = g.Parent()
		}
		if _, isDefer := site.(*ssa.Defer); isDefer || !hasDeferredUndo(g, fk, kind) {
			return false
		}
	}
	return true
}

// withCallees: the functions, and the library functions they call (two levels
// down): a clean-up function may leave the restoring to a method of the saved
// state.
func withCallees(p *Program, fns []*ssa.Function) []*ssa.Function {
	seen := map[*ssa.Function]bool{}
	var out []*ssa.Function
	for _, f := range fns {
		if !seen[f] {
			seen[f] = true
			out = append(out, f)
		}
		for _, g := range staticCalleesWithin(p, f, 2) {
			if !seen[g] {
				seen[g] = true
				out = append(out, g)
			}
		}
	}
	return out
}

// storesThrough: the function stores to the location its pointer parameter
// points at.
func storesThrough(g *ssa.Function, prm *ssa.Parameter) bool {
	for _, b := range g.Blocks {
		for _, ins := range b.Instrs {
			if st, ok := ins.(*ssa.Store); ok && st.Addr == ssa.Value(prm) {
				return true
			}
		}
	}
	return false
}

// idempotentCache: the state is a map (kept in a field) into which every
// insertion stores, under a key, what a pure function of the standard library
// made of that very key (a compiled regular expression under its source): an
// entry says nothing about the runs that came before except that the key was
// seen, and a later run computes the same value.  (That it is guarded against
// concurrent use is R-GLOBALS' business.)
func idempotentCache(p *Program, k string) string {
	if !strings.HasPrefix(k, "map ") {
		return ""
	}
	fk := strings.TrimPrefix(k, "map ")
	n := 0
	for _, fn := range p.LibFns {
		for _, b := range fn.Blocks {
			for _, ins := range b.Instrs {
				mu, ok := ins.(*ssa.MapUpdate)
				if !ok {
					continue
				}
				ld, ok := mu.Map.(*ssa.UnOp)
				if !ok || fieldKey(ld.X) != fk {
					continue
				}
				n++
				pure := false
				for _, o := range origins(mu.Value) {
					var cl *ssa.Call
					switch x := o.(type) {
					case *ssa.Extract:
						cl, _ = x.Tuple.(*ssa.Call)
					case *ssa.Call:
						cl = x
					}
					if cl == nil || cl.Call.StaticCallee() == nil {
						return ""
					}
					switch cl.Call.StaticCallee().String() {
					case "regexp.Compile", "regexp.MustCompile", "regexp.CompilePOSIX":
						if len(cl.Call.Args) == 1 && cl.Call.Args[0] == mu.Key {
							pure = true
							continue
						}
					}
					return ""
				}
				if !pure {
					return ""
				}
			}
		}
	}
	if n == 0 {
		return ""
	}
	return fmt.Sprintf("idempotent cache: each of the %d insertion(s) stores what regexp.Compile made of the key itself", n)
}
