#!/usr/bin/env python3
"""Evaluate one behaviour-preserving edit: tools/benigneval.py <patch.diff> [more patches …]

Each patch is applied to a scratch worktree of /repo's HEAD (never to /repo), the tree
is built, the pinned suite is run, and the twenty quick checks are run against it with a
private evidence directory.  Any VIOLATION is a false alarm and is printed with its rule
and key.  Exit status 1 if there was one."""
import json, os, subprocess, sys, shutil, tempfile, concurrent.futures

ENV = dict(os.environ, GOFLAGS="-mod=mod", GOPROXY="off", GOSUMDB="off", GOTOOLCHAIN="local")
ENV.pop("GOWORK", None)

def sh(cmd, cwd, timeout=900):
    p = subprocess.run(cmd, shell=True, cwd=cwd, env=ENV, capture_output=True, text=True, timeout=timeout)
    return p.returncode, p.stdout + p.stderr

def one(patch):
    patch = os.path.abspath(patch)
    base = tempfile.mkdtemp(prefix="benign-")
    repo = os.path.join(base, "repo")
    vdir = os.path.join(base, "verif")
    res = {"patch": patch}
    try:
        subprocess.run("git -C /repo worktree add -q --detach %s HEAD" % repo, shell=True, check=True)
        os.makedirs(os.path.join(vdir, "evidence"))
        shutil.copy("/verif/known_findings.txt", vdir)
        evbin = os.path.join(base, "evcheck")
        shutil.copy(os.environ.get("EVBIN", "/verif/bin/evcheck"), evbin)
        rc, out = sh("git apply --whitespace=nowarn %s" % patch, repo)
        res["applies"] = rc == 0
        if rc != 0:
            res["error"] = out[-400:]
            return res
        rc, out = sh("go build ./...", repo)
        res["builds"] = rc == 0
        if rc != 0:
            res["error"] = out[-400:]
            return res
        rc, out = sh("go test -vet=off -count=1 ./... 2>&1 | grep -v 'no test files' | grep -v '^ok' ; true", repo)
        res["suite_passes"] = "FAIL" not in out and "panic" not in out
        def check(pid):
            rc, out = sh("%s -prop %s -tier quick -repo %s -verif %s" % (evbin, pid, repo, vdir), "/verif")
            viol = []
            if rc != 0:
                try:
                    d = json.load(open("%s/evidence/%s.violations.json" % (vdir, pid)))
                    viol = [(o["rule"], o["verdict"], o["key"], (o.get("detail") or "")[:200]) for o in d["failing_obligations"]]
                except Exception as e:
                    viol = [("?", "?", "no violations file: %s" % e, out[-300:])]
            return pid, viol
        with concurrent.futures.ThreadPoolExecutor(max_workers=6) as ex:
            results = list(ex.map(check, ["C%02d" % i for i in range(1, 21)]))
        alarms = {}
        for pid, viol in results:
            for v in viol:
                alarms.setdefault((v[0], v[2]), {"verdict": v[1], "detail": v[3], "props": []})["props"].append(pid)
        res["alarms"] = [{"rule": k[0], "key": k[1], **v} for k, v in sorted(alarms.items())]
        return res
    finally:
        subprocess.run("git -C /repo worktree remove --force %s" % repo, shell=True)
        shutil.rmtree(base, ignore_errors=True)

def main():
    bad = 0
    for p in sys.argv[1:]:
        r = one(p)
        ok = r.get("applies") and r.get("builds") and r.get("suite_passes")
        print("%s: applies=%s builds=%s suite=%s alarms=%d" % (p, r.get("applies"), r.get("builds"), r.get("suite_passes"), len(r.get("alarms", []))))
        if not ok and r.get("error"):
            print("   ", r["error"].replace("\n", "\n    "))
        for a in r.get("alarms", []):
            bad += 1
            print("   ALARM %s %s [%s] %s\n         %s" % (a["rule"], a["verdict"], ",".join(a["props"]), a["key"], a["detail"]))
    sys.exit(1 if bad else 0)

if __name__ == "__main__":
    main()
