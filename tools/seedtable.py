#!/usr/bin/env python3
"""Print the markdown table of §10.3 from seeded/*/{meta,result}.json and, with
--write, replace the text between the seeded-table markers of DESIGN.md."""
import json, glob, os, sys, re
V = "/verif"
rows = []
for d in sorted(glob.glob(V + "/seeded/*/")):
    name = os.path.basename(d.rstrip("/"))
    try:
        meta = json.load(open(d + "meta.json"))
        res = json.load(open(d + "result.json"))
    except Exception as e:
        rows.append((name, "?", "(unreadable: %s)" % e, "", ""))
        continue
    prop = res.get("property") or meta.get("property")
    summ = " ".join(str(meta.get("summary", "")).split())
    if len(summ) > 150:
        summ = summ[:147] + "…"
    summ = summ.replace("|", "\\|")
    caught = res.get("caught_by", {})
    own = sorted(set(r for r, _ in caught.get(prop, [])))
    others = sorted(k for k in caught if k != prop)
    rows.append((name, prop, summ, ", ".join(own) if own else "—", ", ".join(others) if others else "—"))
out = ["| change | property | what was changed | caught by (own property's check) | other checks that also fail |",
       "|---|---|---|---|---|"]
for r in rows:
    out.append("| %s | %s | %s | %s | %s |" % r)
n = len(rows)
own = sum(1 for r in rows if r[3] != "—")
oth = sum(1 for r in rows if r[3] == "—" and r[4] != "—")
out.append("")
out.append("%d changes: %d caught by the check of the property they were written against, %d only by the check of another property, %d by none." % (n, own, oth, n - own - oth))
text = "\n".join(out)
if "--write" in sys.argv:
    p = V + "/DESIGN.md"
    s = open(p).read()
    b, e = "<!-- seeded-table-begin -->", "<!-- seeded-table-end -->"
    i, j = s.index(b) + len(b), s.index(e)
    open(p, "w").write(s[:i] + "\n" + text + "\n" + s[j:])
else:
    print(text)
