#!/bin/sh
# tools/tryrule.sh <seed-name|clean> <R-A,R-B,...>: run rules against a scratch
# copy of /repo with the seeded patch applied; print the non-ok obligations.
export GOFLAGS=-mod=mod GOPROXY=off GOSUMDB=off GOTOOLCHAIN=local; unset GOWORK
seed=$1; rules=$2
d=$(mktemp -d /tmp/tryrule-XXXXXX)
rsync -a --exclude .git /repo/ $d/
if [ "$seed" != clean ]; then (cd $d && patch -p1 -s < /verif/seeded/$seed/patch.diff) || { echo "patch failed"; rm -rf $d; exit 2; }; fi
${EVBIN:-/verif/bin/evcheck} -rules "$rules" -repo $d -json 2>/tmp/tryrule.err | python3 -c "
import json,sys
d=json.load(sys.stdin)
n=0
for o in d.get('obligations',[]):
    n+=1
    if o.get('verdict')!='ok' and o.get('verdict')!='info': print(o.get('verdict'),o.get('rule'),'|',o.get('key'),'|',o.get('where'),'|',(o.get('detail') or '')[:220])
print('obligations',n, 'floor/other:', d.get('errors'))
"
rm -rf $d
