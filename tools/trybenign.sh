#!/bin/sh
# tools/trybenign.sh <benign-name|clean> <rules>: run rules (with EVBIN or bin/evcheck) on a scratch copy with the benign patch
export GOFLAGS=-mod=mod GOPROXY=off GOSUMDB=off GOTOOLCHAIN=local; unset GOWORK
b=$1; rules=$2
d=$(mktemp -d /tmp/trybenign-XXXXXX)
rsync -a --exclude .git /repo/ $d/
if [ "$b" != clean ]; then (cd $d && patch -p1 -s < /verif/benign/$b/patch.diff) || { echo "patch failed"; rm -rf $d; exit 2; }; fi
${EVBIN:-/verif/bin/evcheck} -rules "$rules" -repo $d -json 2>/tmp/trybenign.err | python3 -c "
import json,sys
d=json.load(sys.stdin)
n=0
for o in d.get('obligations',[]):
    n+=1
    if o.get('verdict')!='ok' and o.get('verdict')!='info': print(o.get('verdict'),o.get('rule'),'|',o.get('key'),'|',(o.get('detail') or '')[:260])
print('obligations',n)
"
rm -rf $d
