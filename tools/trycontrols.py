#!/usr/bin/env python3
"""tools/trycontrols.py [name-substring]: run the controls of mutants/controls.json whose name contains the
substring (default: the refactor-then-break ones) with EVBIN (default bin/evcheck) and say which fire."""
import json, os, subprocess, sys, tempfile, shutil, concurrent.futures
ENV = dict(os.environ, GOFLAGS="-mod=mod", GOPROXY="off", GOSUMDB="off", GOTOOLCHAIN="local"); ENV.pop("GOWORK", None)
EV = os.environ.get("EVBIN", "/verif/bin/evcheck")
sub = sys.argv[1] if len(sys.argv) > 1 else "based-"
def run(rule, repo, cfg=None):
    p = subprocess.run([EV, "-rules", rule, "-repo", repo, "-json"] + (["-config", cfg] if cfg else []), capture_output=True, text=True, env=ENV)
    try: return json.loads(p.stdout).get("obligations", [])
    except Exception: return None
base_cache = {}
def one(c):
    d = tempfile.mkdtemp(prefix="tryctl-")
    try:
        subprocess.run(["rsync", "-a", "--exclude", ".git", "/repo/", d + "/"], check=True)
        if c.get("patch"):
            if subprocess.run(["git", "apply", "--whitespace=nowarn", "/verif/" + c["patch"]], cwd=d, env=dict(ENV, GIT_CEILING_DIRECTORIES=os.path.dirname(d))).returncode: return c["name"], "skipped (patch)"
        else:
            if c.get("base"):
                if subprocess.run(["git", "apply", "--whitespace=nowarn", "/verif/" + c["base"]], cwd=d, env=dict(ENV, GIT_CEILING_DIRECTORIES=os.path.dirname(d))).returncode: return c["name"], "skipped (base)"
            f = os.path.join(d, c["file"])
            s = open(f).read() if os.path.exists(f) else ""
            if c["old"] == "": s = c["new"]
            elif s.count(c["old"]) != 1: return c["name"], "skipped (anchor x%d)" % s.count(c["old"])
            else: s = s.replace(c["old"], c["new"], 1)
            open(f, "w").write(s)
        b = subprocess.run("go build ./...", shell=True, cwd=d, env=ENV, capture_output=True, text=True)
        if b.returncode: return c["name"], "DOES NOT BUILD " + b.stderr[-200:]
        got = run(c["rule"], d, c.get("config"))
        if got is None: return c["name"], "RUN FAILED"
        basef = base_cache.get((c["rule"], c.get("config")))
        for o in got:
            if o["verdict"] in ("fail", "undecided") and c["expect_key_contains"] in o["key"] and o["key"] not in basef: return c["name"], "fired"
        return c["name"], "DID NOT FIRE; failing: " + "; ".join(o["key"] for o in got if o["verdict"] in ("fail", "undecided") and o["key"] not in basef)[:300]
    finally:
        shutil.rmtree(d, ignore_errors=True)
cs = [c for c in json.load(open("/verif/mutants/controls.json")) if sub in c["name"]]
for r, cfg in sorted(set((c["rule"], c.get("config")) for c in cs), key=lambda x: (x[0], x[1] or "")):
    base_cache[(r, cfg)] = set(o["key"] for o in (run(r, "/repo", cfg) or []) if o["verdict"] in ("fail", "undecided"))
with concurrent.futures.ThreadPoolExecutor(max_workers=6) as ex:
    for name, res in ex.map(one, cs): print(name, "|", res)
