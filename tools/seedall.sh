#!/bin/sh
# Evaluate every kept seeded change (or those named on the command line) against
# the current checks.  Results: /verif/seeded/<name>/result.json and a summary.
cd /verif || exit 2
names="$*"
[ -z "$names" ] && names=$(ls seeded)
for n in $names; do
  timeout 900 tools/seedeval.py seeded/$n > seeded/$n/result.json 2> /tmp/seedeval-$n.err || true
done
python3 - <<'PY'
import json,glob,os
rows=[]
for f in sorted(glob.glob('/verif/seeded/*/result.json')):
    n=f.split('/')[-2]
    try: d=json.load(open(f))
    except Exception: rows.append((n,'UNPARSABLE')); continue
    c=d.get('caught_by',{})
    flags=[k for k in ['applies','builds','suite_passes','demo_fails_with_change','demo_passes_without_change','repo_clean_after'] if not d.get(k)]
    rules=sorted(set(r for v in c.values() for r,_ in v))
    rows.append((n,'own' if d.get('property') in c else ('other' if c else 'MISSED'),",".join(sorted(c)),",".join(rules),flags))
for r in rows: print(*r)
print('own:',sum(1 for r in rows if r[1]=='own'),'other:',sum(1 for r in rows if r[1]=='other'),'missed:',sum(1 for r in rows if r[1]=='MISSED'),'of',len(rows))
PY
