#!/bin/sh
# Evaluate every kept seeded change (or those named on the command line) against
# the current checks.  Default: the sanctioned way — apply to /repo, run the
# quick checks, undo (sequential).  With --fast as first argument: scratch
# worktrees and a private evidence directory, six at a time (for iteration).
cd /verif || exit 2
mode=""
if [ "${1:-}" = "--fast" ]; then mode="--fast"; shift; fi
names="$*"
[ -z "$names" ] && names=$(ls seeded)
if [ -n "$mode" ]; then
  echo $names | tr ' ' '\n' | xargs -P 6 -I{} sh -c 'timeout 900 tools/seedeval.py seeded/{} --fast > seeded/{}/result.json 2> /tmp/seedeval-{}.err || true'
else
  for n in $names; do
    timeout 900 tools/seedeval.py seeded/$n > seeded/$n/result.json 2> /tmp/seedeval-$n.err || true
  done
fi
python3 - <<'PY'
import json,glob,os
rows=[]
for f in sorted(glob.glob('/verif/seeded/*/result.json')):
    n=f.split('/')[-2]
    try: d=json.load(open(f))
    except Exception: rows.append((n,'UNPARSABLE')); continue
    c=d.get('caught_by',{})
    flags=[k for k in ['applies','builds','suite_passes','demo_fails_with_change','demo_passes_without_change','repo_clean_after'] if not d.get(k)]
    rules=sorted(set(r for v in c.values() for r,_ in v))
    rows.append((n,'own' if d.get('property') in c else ('other' if c else 'MISSED'),",".join(sorted(c)),",".join(rules),flags))
for r in rows: print(*r)
print('own:',sum(1 for r in rows if r[1]=='own'),'other:',sum(1 for r in rows if r[1]=='other'),'missed:',sum(1 for r in rows if r[1]=='MISSED'),'of',len(rows))
PY
