#!/bin/sh
# tools/benignall.sh [names…]: evaluate every behaviour-preserving edit under benign/ (or the named ones), five at a time.
cd /verif || exit 2
names="$*"; [ -z "$names" ] && names=$(ls benign)
for n in $names; do echo benign/$n/patch.diff; done | xargs -P 5 -n 1 tools/benigneval.py 2>&1 | tee /tmp/benignall.log | grep -c "alarms=0$"
grep -v "alarms=0$" /tmp/benignall.log | grep "ALARM\|alarms=" | cut -c1-220
