#!/usr/bin/env python3
"""Evaluate one seeded change: tools/seedeval.py <dir-with-patch.diff,demo_test.go,meta.json> [--props C01,C02]

Applies patch.diff to /repo's working tree, confirms it builds, that the pinned
suite still passes and that the demonstration fails; runs the quick checks of
all (or the given) properties and reports which raise a VIOLATION and through
which rule/key; then restores /repo (git checkout -- . and removal of files the
patch added) and confirms the demonstration passes on the clean tree.
Nothing is ever committed to /repo."""
import json, os, subprocess, sys, shutil, concurrent.futures, re

ENV = dict(os.environ, GOFLAGS="-mod=mod", GOPROXY="off", GOSUMDB="off", GOTOOLCHAIN="local")
ENV.pop("GOWORK", None)
REPO = "/repo"
FAST = "--fast" in sys.argv   # scratch worktree + private verif dir: for iteration only

def sh(cmd, cwd=None, timeout=900):
    p = subprocess.run(cmd, shell=True, cwd=cwd or REPO, env=ENV, capture_output=True, text=True, timeout=timeout)
    return p.returncode, p.stdout + p.stderr

def run_check(pid):
    if FAST:
        rc, out = sh("%s -prop %s -tier quick -repo %s -verif %s" % (EVBIN, pid, REPO, VDIR), cwd="/verif")
        vfile = "%s/evidence/%s.violations.json" % (VDIR, pid)
    else:
        rc, out = sh("./run.sh %s quick" % pid, cwd="/verif")
        vfile = "/verif/evidence/%s.violations.json" % pid
    viol = []
    if rc != 0:
        try:
            d = json.load(open(vfile))
            viol = [(o["rule"], o["key"]) for o in d["failing_obligations"]]
        except Exception as e:
            viol = [("?", "no violations file: %s" % e)]
    return pid, rc, viol

EVBIN = VDIR = None

def main():
    global REPO, EVBIN, VDIR
    d = os.path.abspath(sys.argv[1])
    if FAST:
        import tempfile
        base = tempfile.mkdtemp(prefix="seedfast-")
        REPO = os.path.join(base, "repo")
        subprocess.run("git -C /repo worktree add -q --detach %s HEAD" % REPO, shell=True, check=True)
        VDIR = os.path.join(base, "verif")
        os.makedirs(os.path.join(VDIR, "evidence"))
        shutil.copy("/verif/known_findings.txt", VDIR)
        if os.path.isdir("/verif/mutants"): pass
        EVBIN = os.path.join(base, "evcheck")
        shutil.copy(os.environ.get("EVBIN", "/verif/bin/evcheck"), EVBIN)
        try:
            _main(d)
        finally:
            subprocess.run("git -C /repo worktree remove --force %s" % REPO, shell=True)
            shutil.rmtree(base, ignore_errors=True)
        return
    _main(d)

def _main(d):
    props = ["C%02d" % i for i in range(1, 21)]
    if "--props" in sys.argv:
        props = sys.argv[sys.argv.index("--props") + 1].split(",")
    meta = json.load(open(os.path.join(d, "meta.json")))
    rc, out = sh("git status --porcelain")
    if out.strip():
        print("REPO NOT CLEAN, refusing:", out); sys.exit(2)
    demo_dst = demo_cmd = None
    res = {"dir": d, "property": meta.get("property")}
    added = []
    try:
        rc, out = sh("git apply --whitespace=nowarn %s" % os.path.join(d, "patch.diff"))
        if rc != 0:
            print("PATCH DOES NOT APPLY:", out); res["applies"] = False; print(json.dumps(res)); return
        res["applies"] = True
        rc, out = sh("git status --porcelain")
        added = [l[3:] for l in out.splitlines() if l.startswith("??")]
        rc, out = sh("go build ./...")
        res["builds"] = rc == 0
        if rc != 0: print(out[-600:])
        rc, out = sh("go test -vet=off -count=1 ./... 2>&1 | grep -v 'no test files' | grep -v '^ok' ; true")
        res["suite_passes"] = "FAIL" not in out and "panic" not in out
        if not res["suite_passes"]: print(out[-800:])
        # demonstration
        # target package directory from the demo's package clause
        src = open(os.path.join(d, "demo_test.go")).read()
        m = re.search(r"^package\s+(\w+)", src, re.M)
        pkg = m.group(1) if m else "evalfilter_test"
        base = pkg[:-5] if pkg.endswith("_test") else pkg
        sub = {"evalfilter": "", "main": "cmd/evalfilter"}.get(base, base)
        demo_dst = os.path.join(REPO, sub, "zz_seeded_demo_test.go")
        shutil.copy(os.path.join(d, "demo_test.go"), demo_dst)
        demo_pkg = "./" + os.path.relpath(os.path.dirname(demo_dst), REPO)
        names = re.findall(r"^func (Test\w+)\(", src, re.M)
        race = "-race " if "-race" in meta.get("demo_cmd", "") else ""
        import re as _re
        mt = _re.search(r"-tags[ =](\S+)", meta.get("demo_cmd", ""))
        if mt:
            race += "-tags %s " % mt.group(1)
        demo_cmd = "go test -vet=off -count=1 -timeout 180s %s-run '^(%s)$' %s 2>&1 | tail -15" % (race, "|".join(names), demo_pkg)
        rc, out = sh(demo_cmd, timeout=600)
        res["demo_fails_with_change"] = ("FAIL" in out) or ("panic" in out) or ("fatal error" in out)
        res["demo_output_with_change"] = out[-500:]
        os.remove(demo_dst)
        # the checks
        with concurrent.futures.ThreadPoolExecutor(max_workers=6) as ex:
            results = list(ex.map(run_check, props))
        caught = {}
        for pid, rc, viol in results:
            if rc != 0:
                caught[pid] = viol
        res["caught_by"] = {k: v[:6] for k, v in caught.items()}
        res["own_property_catches"] = meta.get("property") in caught
    finally:
        sh("git checkout -- .")
        for a in added:
            p = os.path.join(REPO, a)
            if os.path.isdir(p): shutil.rmtree(p)
            elif os.path.exists(p): os.remove(p)
    # clean tree: demo passes
    try:
        shutil.copy(os.path.join(d, "demo_test.go"), demo_dst)
        rc, out = sh(demo_cmd, timeout=600)
        res["demo_passes_without_change"] = not (("FAIL" in out) or ("panic" in out) or ("fatal error" in out))
        if not res["demo_passes_without_change"]:
            res["demo_output_clean"] = out[-500:]
    finally:
        if os.path.exists(demo_dst): os.remove(demo_dst)
    rc, out = sh("git status --porcelain")
    res["repo_clean_after"] = out.strip() == ""
    print(json.dumps(res, indent=1))

if __name__ == "__main__":
    main()
