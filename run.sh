#!/bin/sh
# run.sh <property-id> [quick|thorough] [--explain <violations.json>]
#
# Builds the checker if needed and runs the check for one property against
# /repo's current working tree.  Exit 0: property held on everything analysed;
# exit 1 with "VIOLATION property=<id> replay=<path>" otherwise.
set -u
here="$(cd "$(dirname "$0")" && pwd)"
cd "$here" || exit 2
export GOFLAGS=-mod=mod GOPROXY=off GOSUMDB=off GOTOOLCHAIN=local CGO_ENABLED=0
unset GOWORK
prop="${1:?usage: run.sh <property-id> [quick|thorough]}"
tier="${2:-${VERIF_TIER:-quick}}"
explain=""
if [ "${3:-}" = "--explain" ]; then explain="-explain ${4:-x}"; fi
if [ ! -x bin/evcheck ] || [ -n "$(find checker -name '*.go' -newer bin/evcheck 2>/dev/null | head -1)" ] || [ checker/go.mod -nt bin/evcheck ]; then
  # build beside the target and rename, so that checks running in parallel
  # never execute a half-written binary
  mkdir -p bin
  tmp="bin/evcheck.$$.tmp"
  (cd checker && go build -o "../$tmp" .) || { rm -f "$tmp"; echo "VIOLATION property=$prop replay=checker-build-failed"; exit 1; }
  mv -f "$tmp" bin/evcheck
fi
exec bin/evcheck -prop "$prop" -tier "$tier" -repo "${VERIF_REPO:-/repo}" -verif "$here" $explain
